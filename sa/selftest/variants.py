"""Self-test corpus: breaking variants (must fire on the named instance) and
benign twins (must stay silent).  Paths are relative to src/pyimpspec."""

VARIANTS = []


def V(id, prop, file, old, new, expect, key=""):
    VARIANTS.append(dict(id=id, prop=prop, file=file, old=old, new=new, expect=expect, key=key))


def VM(id, prop, edits, expect, key=""):
    VARIANTS.append(dict(id=id, prop=prop, edits=[dict(file=f, old=o, new=n) for f, o, n in edits], expect=expect, key=key))


BASE = "circuit/base.py"
SER = "circuit/series.py"
PAR = "circuit/parallel.py"
PARSER = "circuit/parser.py"
TOK = "circuit/tokenizer.py"
DS = "data/data_set.py"
TLM = "circuit/transmission_line_model.py"

# ---------------------------------------------------------------- C01
V("c01-series-assign", "C01", SER, "            result += Z\n", "            result = Z\n", "fire", "Series._impedance")
V("c01-parallel-noinv", "C01", PAR, "            for Z in path_impedances:\n                results += 1 / Z\n\n            results = 1 / results",
  "            for Z in path_impedances:\n                results += Z\n\n            results = 1 / results", "fire", "Parallel._impedance:law")
V("c01-parallel-result", "C01", PAR, "                results += 1 / Z\n\n            results = 1 / results\n", "                results += 1 / Z\n\n", "fire", "Parallel._impedance:law")
V("c01-benign-open-not-skipped", "C01", PAR, "                num_open_paths += 1\n                continue\n", "                num_open_paths += 1\n", "silent")  # 1/inf = 0: an all-open child that is summed contributes nothing
V("c01-dispatch-swap", "C01", SER,
  "            if isinstance(elem_con, Container):\n                Z = elem_con._impedance(\n                    f,\n                    **elem_con.get_values(),\n                    **elem_con.get_subcircuits(),\n                )\n            elif isinstance(elem_con, Element):\n                Z = elem_con._impedance(\n                    f,\n                    **elem_con.get_values(),\n                )\n",
  "            if isinstance(elem_con, Element):\n                Z = elem_con._impedance(\n                    f,\n                    **elem_con.get_values(),\n                )\n            elif isinstance(elem_con, Container):\n                Z = elem_con._impedance(\n                    f,\n                    **elem_con.get_values(),\n                    **elem_con.get_subcircuits(),\n                )\n",
  "fire", "Series._impedance:law")
V("c01-sympy-parallel-sum", "C01", PAR, "                expr += 1 / element.to_sympy(\n                    substitute=substitute, identifier=identifiers[element]\n                )",
  "                expr += element.to_sympy(\n                    substitute=substitute, identifier=identifiers[element]\n                )", "fire", "Parallel.to_sympy:step")
V("c01-limit-set", "C01", BASE, "                where(f == 0.0)[0],\n                where(isinf(f))[0],", "                where(f == 0.0)[0],", "fire", "_calculate_impedances:semantics")
V("c01-circuit-list", "C01", "circuit/circuit.py", "                elements = Series(elements)\n", "                elements = Series([elements])\n", "fire", "list-in-connection")
V("c01-benign-accumulate", "C01", SER, "            result += Z\n", "            result = result + Z\n", "silent")
V("c01-benign-rename", "C01", SER, "        if not self._elements:\n            return complex(0, 0) * f\n\n        result: ComplexImpedances = zeros(f.shape, dtype=ComplexImpedance)",
  "        if not self._elements:\n            return complex(0, 0) * f\n\n        # sum of the children\n        result: ComplexImpedances = zeros(f.shape, dtype=ComplexImpedance)", "silent")
V("c01-benign-allinf-form", "C01", PAR, "            if inf_indices.size == f.size:", "            if isinf(Z).all():", "silent")

# ---------------------------------------------------------------- C02
V("c02-warburg-2pi", "C02", "circuit/warburg.py", "        return 1 / (Y * (1j * 2 * pi * f) ** n)", "        return 1 / (Y * (1j * pi * f) ** n)", "fire", "Warburg:numeric-vs-equation")
V("c02-zarc-equation", "C02", "circuit/zarc.py", 'equation="R/(1+(2*pi*f*I*tau)^n)"', 'equation="R/(1+(2*pi*f*I*tau)^(n/2))"', "fire", "numeric-vs-equation")
V("c02-delevie-regress", "C02", "circuit/de_levie.py", "coth(d * sqrt(R_i / R_r) * beta)", "coth(d * alpha * beta)", "fire", "DeLevieFiniteLength")
V("c02-tlm-eq18", "C02", TLM, "                    return self._eq18_variant(x.impedances, lm, ct)", "                    return self._eq20(x.impedances, lm, ct)", "fire", "R2.3")
V("c02-benign-tlm-eq18-general", "C02", TLM, "                    return self._eq18_variant(x.impedances, lm, ct)", "                    return self._eq18(x.impedances, z.impedances, lm, ct)", "silent")  # eq.18 with Z=0 IS the variant
V("c02-tlm-refusal-dropped", "C02", TLM,
  "        elif ze.is_open:\n            raise NotImplementedError(\"Zeta cannot be open!\")\n        elif ze.is_short:\n            raise NotImplementedError(\"Zeta cannot be short!\")\n\n        x1.update_expr(",
  "        elif ze.is_open:\n            raise NotImplementedError(\"Zeta cannot be open!\")\n\n        x1.update_expr(", "fire", "R2.3")
V("c02-coth-helper", "C02", "circuit/functions.py", "    return 1 / tanh(x)", "    return 1 / sinh(x)", "fire", "numeric-vs-equation")
V("c02-param-limit", "C02", "circuit/resistor.py", "                lower_limit=0.0,\n                upper_limit=inf,", "                lower_limit=2000.0,\n                upper_limit=inf,", "fire", "Resistor.R:limits")
V("c02-limit-source", "C02", BASE, "    expr: Expr = obj.to_sympy(substitute=True)\n    symbols: Set[Basic] = expr.free_symbols",
  "    expr: Expr = obj.to_sympy(substitute=False)\n    symbols: Set[Basic] = expr.free_symbols", "fire", "_calculate_limit")
V("c02-benign-power-form", "C02", "circuit/warburg.py", "        return 1 / (Y * (1j * 2 * pi * f) ** n)", "        return (Y * (1j * 2 * pi * f) ** n) ** -1", "silent")
V("c02-benign-local", "C02", "circuit/warburg.py", "        return 1 / (Y * (1j * 2 * pi * f) ** n)", "        w = 2 * pi * f\n        return 1 / (Y * (1j * w) ** n)", "silent")
V("c02-benign-tlm-reorder", "C02", TLM,
  "        if x1.is_open:\n            raise NotImplementedError(\"X_1 cannot be open!\")\n        elif x2.is_open:\n            raise NotImplementedError(\"X_2 cannot be open!\")\n        elif x1.is_short and x2.is_short:\n            raise NotImplementedError(\n                \"Both X_1 and X_2 cannot be short at the same time!\"\n            )\n        elif ze.is_open:\n            raise NotImplementedError(\"Zeta cannot be open!\")\n        elif ze.is_short:\n            raise NotImplementedError(\"Zeta cannot be short!\")\n\n        lm: ComplexImpedances",
  "        if x2.is_open:\n            raise NotImplementedError(\"X_2 cannot be open!\")\n        elif x1.is_open:\n            raise NotImplementedError(\"X_1 cannot be open!\")\n        elif x1.is_short and x2.is_short:\n            raise NotImplementedError(\n                \"Both X_1 and X_2 cannot be short at the same time!\"\n            )\n        elif ze.is_open:\n            raise NotImplementedError(\"Zeta cannot be open!\")\n        elif ze.is_short:\n            raise NotImplementedError(\"Zeta cannot be short!\")\n\n        lm: ComplexImpedances",
  "silent")

# ---------------------------------------------------------------- C03
V("c03-drain", "C03", PARSER, "            while self.get_stack_length() > stack_length:\n", "            while not self.is_stack_empty():\n", "fire", "Parser.subcircuit:drain")
V("c03-extra-reverse", "C03", PARSER, "                elements.insert(0, con)\n\n            return Series(elements)", "                elements.insert(0, con)\n\n            elements.reverse()\n\n            return Series(elements)", "fire", "Parser.subcircuit:reversed")
V("c03-connection-noreverse", "C03", PARSER, "        items.reverse()\n\n        if Class is Series and len(items) == 1:", "        if Class is Series and len(items) == 1:", "fire", "Parser.connection:reversed")
V("c03-flatten-orientation", "C03", PARSER, "                items.extend(reversed(item._elements))", "                items.extend(item._elements)", "fire", "extend-orientation")
V("c03-keyword-open", "C03", PARSER, 'elif token.value == "inf" or token.value == "open":', 'elif token.value == "inf" or token.value == "opened":', "fire", "word:open")
V("c03-emit-semicolon", "C03", BASE, '        cdc: str = self.get_symbol() + "{" + ",".join(parameters)', '        cdc: str = self.get_symbol() + "{" + ";".join(parameters)', "fire", "punct:;")
V("c03-limit-order-regress", "C03", PARSER,
  "        element.set_lower_limits(\n            **{k: -inf for k, v in lower_limits.items() if not isnan(v)}\n        )\n        element.set_upper_limits(",
  "        element.set_upper_limits(", "fire", "Parser.element:refused")  # upper-then-lower without widening: refused when u <= l0
V("c03-limit-lower-first", "C03", PARSER,
  "        element.set_lower_limits(\n            **{k: -inf for k, v in lower_limits.items() if not isnan(v)}\n        )\n        element.set_upper_limits(\n            **{k: v for k, v in upper_limits.items() if not isnan(v)}\n        )\n        element.set_lower_limits(\n            **{k: v for k, v in lower_limits.items() if not isnan(v)}\n        )\n",
  "        element.set_lower_limits(\n            **{k: v for k, v in lower_limits.items() if not isnan(v)}\n        )\n        element.set_upper_limits(\n            **{k: v for k, v in upper_limits.items() if not isnan(v)}\n        )\n",
  "fire", "Parser.element:refused")
V("c03-param-order", "C03", PARSER, "                lower = self.param_limit(value.value, upper=False)\n                if self.accept(ForwardSlash):\n                    self.pop_token()\n                    upper = self.param_limit(value.value, upper=True)",
  "                upper = self.param_limit(value.value, upper=True)\n                if self.accept(ForwardSlash):\n                    self.pop_token()\n                    lower = self.param_limit(value.value, upper=False)", "fire", "Parser.param:limit-order")
V("c03-benign-append-reverse", "C03", PARSER, "                elements.insert(0, con)\n\n            return Series(elements)", "                elements.append(con)\n\n            elements.reverse()\n\n            return Series(elements)", "silent")

# ---------------------------------------------------------------- C04
V("c04-pop-token-guard", "C04", PARSER, "    def pop_token(self) -> Token:\n        if len(self._tokens) == 0:\n            raise InsufficientTokens()\n\n        return self._tokens.pop(0)",
  "    def pop_token(self) -> Token:\n        return self._tokens.pop(0)", "fire", "Parser.pop_token")
V("c04-number-none-guard", "C04", TOK, "        if self.peek(0) is not None and self.peek(0) in \"fF\":", "        if self.peek(0) in \"fF\":", "fire", "Tokenizer.number")
V("c04-peek-minus-regress", "C04", TOK, "            char == \"-\" and self.peek() is not None and self.peek() in digits\n", "            char == \"-\" and self.peek() in digits\n", "fire", "Tokenizer.main_loop")
V("c04-raise-indexerror", "C04", PARSER, "        else:\n            raise InsufficientTokens()\n\n    def connection(", "        else:\n            raise IndexError()\n\n    def connection(", "fire", "Parser.main_loop:IndexError")
V("c04-int-regress", "C04", PARSER, "            if not (0 < token.value <= VERSION):\n                raise InvalidNumericValue(token, f\"Expected 0 < value <= {VERSION}!\")\n\n            version = int(token.value)",
  "            version = int(token.value)\n            if not (0 < version <= VERSION):\n                raise InvalidNumericValue(token, f\"Expected 0 < value <= {VERSION}!\")\n", "fire", "int(token.value)")
V("c04-recursion-regress", "C04", PARSER, "                except RecursionError:\n", "                except KeyboardInterrupt:\n", "fire", "recursion")
V("c04-valid-elements-guard", "C04", PARSER, "        if identifier.value not in self._valid_elements:\n            raise InvalidElementSymbol(identifier)\n\n", "", "fire", "self._valid_elements[identifier.value]")
V("c04-positional-setter", "C04", PARSER, "        element.set_fixed(**fixed_parameters)", "        element.set_fixed(*[x for kv in fixed_parameters.items() for x in kv])", "fire", "set_fixed:positional")
V("c04-benign-new-error", "C04", PARSER, "        else:\n            raise InsufficientTokens()\n\n    def connection(", "        else:\n            raise ExpectedNumericValue(None)\n\n    def connection(", "silent")
V("c04-benign-hoist-peek", "C04", TOK, "        if self.peek(0) is not None and self.peek(0) in \"fF\":", "        nxt = self.peek(0)\n        if nxt is not None and nxt in \"fF\":", "silent")

# ---------------------------------------------------------------- C05
V("c05-mask-not-flipped", "C05", DS, "                mask = {frequencies.size - 1 - i: flag for i, flag in mask.items()}", "                mask = {i: flag for i, flag in mask.items()}", "fire", "DataSet:state-machine")
V("c05-swap-loop-regress", "C05", DS, "                mask = {frequencies.size - 1 - i: flag for i, flag in mask.items()}",
  "                mask = mask.copy()\n                for i in range(0, frequencies.size):\n                    j = frequencies.size - 1 - i\n                    flag = mask.get(i, False)\n                    mask[i] = mask.get(j, False)\n                    mask[j] = flag", "fire", "DataSet:state-machine")
V("c05-impedances-not-flipped", "C05", DS, "            frequencies = flip(frequencies)\n            impedances = flip(impedances)\n", "            frequencies = flip(frequencies)\n", "fire", "DataSet:state-machine")
V("c05-set-mask-nocopy", "C05", DS, "        mask = mask.copy()\n\n        for i in list(mask.keys()):", "        for i in list(mask.keys()):", "fire", "DataSet.set_mask:mask")
V("c05-parse-nocopy", "C05", DS, "        dictionary = dictionary.copy()\n", "", "fire", "DataSet._parse:dictionary")
V("c05-version-del", "C05", DS, '        version: int = dictionary.pop("version", VERSION)', '        version: int = dictionary.get("version", VERSION)\n        del dictionary["version"]', "fire", "R5.2")
V("c05-lowpass-filtered-index", "C05", DS, "        for i, f in enumerate(self.get_frequencies(masked=None)):\n            if f > cutoff:", "        for i, f in enumerate(self.get_frequencies(masked=False)):\n            if f > cutoff:", "fire", "DataSet:state-machine")
V("c05-to-dict-key", "C05", DS, '            "real_impedances": self._impedances.real.tolist(),', '            "real": self._impedances.real.tolist(),', "fire", "R5.6")
V("c05-benign-getter-default", "C05", DS, "                for i, c in enumerate(self._impedances)\n                if self._mask.get(i, False) == masked", "                for i, c in enumerate(self._impedances)\n                if self._mask.get(i, True) == masked", "silent")  # every key is present in every reachable state: the default of .get() is never used
V("c05-get-mask-alias", "C05", DS, "        return self._mask.copy()", "        return self._mask", "fire", "get_mask:alias")
V("c05-benign-swap-half", "C05", DS, "                mask = {frequencies.size - 1 - i: flag for i, flag in mask.items()}",
  "                mask = mask.copy()\n                for i in range(0, frequencies.size // 2):\n                    j = frequencies.size - 1 - i\n                    flag = mask.get(i, False)\n                    mask[i] = mask.get(j, False)\n                    mask[j] = flag", "silent")
V("c05-benign-dict-order", "C05", DS, '            "version": VERSION,\n            "path": self._path,', '            "path": self._path,\n            "version": VERSION,', "silent")

# ---------------------------------------------------------------- C14
V("c14-store-before-refusal", "C14", BASE,
  "            value = float(value)\n            if value >= self._parameter_upper_limit[key]:\n                raise ValueError(\n                    f\"Expected the new value of {key=} ({value}) to be less than the current upper limit of {self._parameter_upper_limit[key]}\"\n                )\n\n            if self._parameter_value[key] < value:\n                self._parameter_value[key] = value\n",
  "            value = float(value)\n            if self._parameter_value[key] < value:\n                self._parameter_value[key] = value\n\n            if value >= self._parameter_upper_limit[key]:\n                raise ValueError(\n                    f\"Expected the new value of {key=} ({value}) to be less than the current upper limit of {self._parameter_upper_limit[key]}\"\n                )\n",
  "fire", "set_lower_limits:store-before-refusal")
V("c14-nonstrict", "C14", BASE, "            if value <= self._parameter_lower_limit[key]:", "            if value < self._parameter_lower_limit[key]:", "fire", "set_upper_limits:postcondition")
V("c14-no-clamp", "C14", BASE, "            if self._parameter_value[key] > value:\n                self._parameter_value[key] = value\n\n            self._parameter_upper_limit[key] = value", "            self._parameter_upper_limit[key] = value", "fire", "set_upper_limits:postcondition")
V("c14-copy-regress", "C14", BASE,
  "            type(self)()\n            .set_lower_limits(**{key: -inf for key in self.get_lower_limits()})\n            .set_upper_limits(**self.get_upper_limits())\n            .set_lower_limits(**self.get_lower_limits())\n",
  "            type(self)()\n            .set_lower_limits(**self.get_lower_limits())\n            .set_upper_limits(**self.get_upper_limits())\n", "fire", "Element.__copy__:refused")
V("c14-copy-no-fixed", "C14", BASE, "            .set_values(**self.get_values())\n            .set_fixed(**self.are_fixed())\n            .set_label(self._label)", "            .set_values(**self.get_values())\n            .set_label(self._label)", "fire", "Element.__copy__:wrong-state")
V("c14-getter-alias", "C14", BASE, "        if not (args or kwargs):\n            return self._parameter_value.copy()", "        if not (args or kwargs):\n            return self._parameter_value", "fire", "returns-_parameter_value")
V("c14-init-alias", "C14", BASE, "        ] = self._parameter_default_lower_limit.copy()", "        ] = self._parameter_default_lower_limit", "fire", "aliases-_parameter_default_lower_limit")
V("c14-reset-regress", "C14", BASE, "        self.set_lower_limits(key, -inf)\n", "", "fire", "Element.reset_parameter:refused")
V("c14-default-subcircuit-alias", "C14", BASE, "                self._subcircuit_value[key] = (\n                    deepcopy(value) if value is not None else value\n                )", "                self._subcircuit_value[key] = value", "fire", "default-subcircuit-alias")
V("c14-benign-values-first", "C14", BASE,
  "            .set_lower_limits(**self.get_lower_limits())\n            .set_values(**self.get_values())\n            .set_fixed(**self.are_fixed())",
  "            .set_lower_limits(**self.get_lower_limits())\n            .set_fixed(**self.are_fixed())\n            .set_values(**self.get_values())", "silent")

REG = "circuit/registry.py"
FIT = "analysis/fitting.py"
TIKZ = "circuit/diagrams/circuitikz.py"
SCHEM = "circuit/diagrams/schemdraw.py"

# ---------------------------------------------------------------- C15
V("c15-private-regress", "C15", REG, "        key: str\n        for key in list(_PRIVATE_ELEMENTS.keys()):\n            if key not in _DEFAULT_ELEMENTS:\n                del _PRIVATE_ELEMENTS[key]\n", "", "fire", "does-not-restore:_PRIVATE_ELEMENTS")
V("c15-remove-default-guard", "C15", REG, "    for element in elements:\n        if element in default_elements:\n            raise ValueError(\n                f\"Expected a user-defined element instead of one of the default elements {element=}\"\n            )\n\n", "", "fire", "remove_elements:semantics")
V("c15-duplicate-guard", "C15", REG, "    if not (symbol not in _ELEMENTS or _ELEMENTS[symbol] == Class):\n        raise KeyError(\n            f\"An element with the symbol '{symbol}' ({_ELEMENTS[symbol]}) has already been registered before this attempt to register '{Class}'!\"\n        )\n\n", "", "fire", "duplicate-guard")
V("c15-validation-skipped", "C15", REG, "    if kwargs.get(\"validate_impedances\", _VALIDATE_IMPEDANCES):\n        _validate_impedances(Class)\n", "    if kwargs.get(\"validate_impedances\", False):\n        _validate_impedances(Class)\n", "fire", "_initialize_element:validation")
V("c15-imag-not-compared", "C15", REG, "    if not allclose(Z_func.imag, Z_sympy.imag):\n        raise ValueError(\n            f\"The imaginary parts of the results of the _impedance method and SymPy expression do not match for '{Class}'!\"\n        )\n", "", "fire", "_validate_impedances:comparison")
V("c15-imag-vs-real", "C15", REG, "    if not allclose(Z_func.imag, Z_sympy.imag):", "    if not allclose(Z_func.imag, Z_sympy.real):", "fire", "_validate_impedances:comparison")
V("c15-validate-unsubstituted", "C15", REG, "    expr: Expr = element.to_sympy(substitute=True)\n    f: Frequencies = array([1e6", "    expr: Expr = element.to_sympy()\n    f: Frequencies = array([1e6", "fire", "_validate_impedances:comparison")
V("c15-restore-wrong-snapshot", "C15", REG, "            element.set_default_values(**_DEFAULT_ELEMENT_PARAMETERS[key])", "            element.set_default_values(**_DEFAULT_ELEMENT_PARAMETERS[sorted(_DEFAULT_ELEMENT_PARAMETERS)[0]])", "fire", "defaults:restore")
V("c15-restore-first-only", "C15", REG, "            element.set_default_values(**_DEFAULT_ELEMENT_PARAMETERS[key])\n", "            element.set_default_values(**_DEFAULT_ELEMENT_PARAMETERS[key])\n            break\n", "fire", "defaults:restore")
V("c15-benign-compare-loop", "C15", REG, "    if not allclose(Z_func.imag, Z_sympy.imag):\n        raise ValueError(\n            f\"The imaginary parts of the results of the _impedance method and SymPy expression do not match for '{Class}'!\"\n        )\n", "    for _part in (\"imag\",):\n        if allclose(getattr(Z_func, _part), getattr(Z_sympy, _part)):\n            continue\n        raise ValueError(\n            f\"The imaginary parts of the results of the _impedance method and SymPy expression do not match for '{Class}'!\"\n        )\n", "silent")
V("c15-benign-restore-pairs", "C15", REG, "    for key, element in _DEFAULT_ELEMENTS.items():\n        if element in elements:\n            element.set_default_values(**_DEFAULT_ELEMENT_PARAMETERS[key])", "    for element, _values in [(e, _DEFAULT_ELEMENT_PARAMETERS[k]) for k, e in _DEFAULT_ELEMENTS.items() if e in elements]:\n        element.set_default_values(**_values)", "silent")
V("c15-tokenizer-uppercase", "C15", "circuit/tokenizer.py", "            valid_chars = ascii_lowercase + digits + \"_\"\n", "            valid_chars = ascii_letters + digits + \"_\"\n", "fire", "alphabet:uppercase")
V("c15-import-time-table", "C15", "circuit/parser.py", "Stackable = Union[Token, Element, Connection]\n", "Stackable = Union[Token, Element, Connection]\n_TABLE = get_elements(private=True)\n", "fire", "import-time-snapshot")
V("c15-benign-iterate-items", "C15", REG, "        for key in list(_ELEMENTS.keys()):\n            if _ELEMENTS[key] is element:", "        for key, _value in list(_ELEMENTS.items()):\n            if _value is element:", "silent")

# ---------------------------------------------------------------- C16
V("c16-fit-ids-not-running", "C16", FIT, "    for element, ident in circuit.generate_element_identifiers(running=True).items():\n        identifiers[element] = {}", "    for element, ident in circuit.generate_element_identifiers(running=False).items():\n        identifiers[element] = {}", "fire", "generate_fit_identifiers:running-flag")
V("c16-separator", "C16", FIT, "            identifiers[element][symbol] = f\"{symbol}_{ident}\"", "            identifiers[element][symbol] = f\"{symbol}-{ident}\"", "fire", "writers:separator")
V("c16-sympy-running", "C16", "circuit/circuit.py", "            identifiers=self.generate_element_identifiers(running=True),", "            identifiers=self.generate_element_identifiers(running=False),", "fire", "Circuit.to_sympy:running-flag")
V("c16-reader-split", "C16", FIT, "            variable_name, _ = variable_name.rsplit(\"_\", 1)", "            variable_name, _ = variable_name.split(\"_\", 1)", "fire", "_extract_parameters:reader")
V("c16-count-from-zero", "C16", BASE, "            symbol: str = element.get_symbol()\n            i: int = counts[symbol] + 1\n            counts[symbol] = i\n            identifiers[element] = i\n\n        return identifiers", "            symbol: str = element.get_symbol()\n            i: int = counts[symbol]\n            counts[symbol] = i + 1\n            identifiers[element] = i\n\n        return identifiers", "fire", "Connection.generate_element_identifiers:counts")
V("c16-name-rule", "C16", FIT, "            element_name = f\"{symbol}_{external_identifiers[element]}\"", "            element_name = f\"{symbol}_{internal_id}\"", "fire", "element-name:rule")
V("c16-validate-late", "C16", FIT, "    if not isinstance(circuit, Circuit):\n        raise TypeError(f\"Expected a Circuit instead of {circuit=}\")\n    else:\n        validate_circuit(circuit)\n", "    if not isinstance(circuit, Circuit):\n        raise TypeError(f\"Expected a Circuit instead of {circuit=}\")\n", "fire", "validate_circuit:duplicates")
V("c16-benign-local-name", "C16", FIT, "    for element, ident in circuit.generate_element_identifiers(running=True).items():\n        identifiers[element] = {}", "    for element, ident in circuit.generate_element_identifiers(running=True).items():\n        identifiers[element] = dict()", "silent")

# ---------------------------------------------------------------- C20
V("c20-draw-series-no-parallel", "C20", SCHEM, "            elif isinstance(elem_con, Parallel):\n                if not outermost:\n                    drawing.add(elm.Line(l=0.5).right())\n                draw_parallel(elem_con, drawing)\n                if not outermost or (\n                    i < len(elements) - 1 and isinstance(elements[i + 1], Parallel)\n                ):\n                    drawing.add(elm.Line(l=0.5).right())\n\n", "", "fire", "draw_series:missing-Parallel")
V("c20-tikz-skip-element", "C20", TIKZ, "                w, h = phase_1_element(element_connection, x, y + height)\n                if w > width:\n                    width = w\n                height += h\n", "                w, h = (1.0, 1.0)\n                if w > width:\n                    width = w\n                height += h\n", "fire", "phase_1_parallel:element-emit")
V("c20-end-missing", "C20", TIKZ, "    source: str = \"\\n  \".join(lines) + \"\\n\\\\end{circuitikz}\"", "    source: str = \"\\n  \".join(lines)", "fire", "to_circuitikz:framing")
V("c20-pop-condition", "C20", SCHEM, "            if i > 0:\n                drawing.add(elm.Line(l=heights[i - 1]).up())\n                drawing.pop()", "            if i > 1:\n                drawing.add(elm.Line(l=heights[i - 1]).up())\n                drawing.pop()", "fire", "draw_parallel:push-pop")
V("c20-latex-substitute", "C20", "circuit/circuit.py", "        return f\"Z = {latex(self.to_sympy(substitute=False))}\"", "        return f\"Z = {latex(self.to_sympy(substitute=True))}\"", "fire", "Circuit.to_latex:source")
V("c20-sympy-skip-container", "C20", "circuit/series.py", "            if isinstance(element, Container) or isinstance(element, Connection):\n                expr += element.to_sympy(substitute=substitute, identifiers=identifiers)\n            elif isinstance(element, Element):", "            if isinstance(element, Container):\n                expr += element.to_sympy(substitute=substitute, identifiers=identifiers)\n            elif isinstance(element, Element):", "fire", "Series.to_sympy:silent-else")
V("c20-tikz-extent-skips-parallel", "C20", TIKZ, "                for element in dimensions:\n                    if not element_connection.contains(element, top_level=True):\n                        continue\n\n                    ey = positions[element][1]", "                for element in dimensions:\n                    if type(element) is Parallel or not element_connection.contains(element, top_level=True):\n                        continue\n\n                    ey = positions[element][1]", "fire", "to_circuitikz:not-total")
V("c20-tikz-short-wire-as-component", "C20", TIKZ, "                        r\"\\draw (<start_x>,<start_y>) to[short] (<end_x>,<end_y>);\",", "                        r\"\\draw (<start_x>,<start_y>) to[R=$w$] (<end_x>,<end_y>);\",", "fire", "to_circuitikz:components")
V("c20-benign-tikz-extent-helper-names", "C20", TIKZ, "                    ey = positions[element][1]\n\n                    if start_y > 0.0 or ey > start_y:\n                        start_y = ey", "                    _ex, ey = positions[element]\n\n                    if start_y > 0.0 or ey > start_y:\n                        start_y = ey", "silent")
V("c20-benign-reorder-arms", "C20", SCHEM, "            if isinstance(elem_con, Element):\n                draw_element(elem_con, drawing)\n            elif isinstance(elem_con, Series):\n                draw_series(elem_con, drawing)\n            elif isinstance(elem_con, Parallel):\n                draw_parallel(elem_con, drawing)\n            else:", "            if isinstance(elem_con, Series):\n                draw_series(elem_con, drawing)\n            elif isinstance(elem_con, Element):\n                draw_element(elem_con, drawing)\n            elif isinstance(elem_con, Parallel):\n                draw_parallel(elem_con, drawing)\n            else:", "silent")

# ---------------------------------------------------------------- C08
V("c08-residuals-swapped-model", "C08", "analysis/drt/tr_nnls.py", "        residuals=_calculate_residuals(Z_exp, Z_fit),\n        pseudo_chisqr=_calculate_pseudo_chisqr(Z_exp, Z_fit),\n        lambda_value=lambda_value,", "        residuals=_calculate_residuals(Z_fit, Z_exp),\n        pseudo_chisqr=_calculate_pseudo_chisqr(Z_exp, Z_fit),\n        lambda_value=lambda_value,", "fire", "TRNNLSResult:residuals")
V("c08-masked-none", "C08", "analysis/drt/tr_nnls.py", "        Z_exp: ComplexImpedances = data.get_impedances()\n        omega: NDArray[float64] = 2 * pi * f", "        Z_exp: ComplexImpedances = data.get_impedances(masked=None)\n        omega: NDArray[float64] = 2 * pi * f", "fire", "masked")
V("c08-fit-no-deepcopy", "C08", FIT, "    circuit = deepcopy(original_circuit)", "    circuit = original_circuit", "fire", "fit_circuit:circuit")
V("c08-chisqr-before-writeback", "C08", FIT, "    _from_lmfit(fit.params, identifiers)\n\n    return (\n        circuit,\n        _calculate_pseudo_chisqr(Z_exp=Z_exp, Z_fit=circuit.get_impedances(f)),",
  "    Xps = _calculate_pseudo_chisqr(Z_exp=Z_exp, Z_fit=circuit.get_impedances(f))\n    _from_lmfit(fit.params, identifiers)\n\n    return (\n        circuit,\n        Xps,", "fire", "chisqr-producer")
V("c08-residual-definition", "C08", "analysis/utility.py", "    return (Z_exp - Z_fit) / abs(Z_exp)", "    return (Z_exp - Z_fit) / abs(Z_fit)", "fire", "definitions:identity")
V("c08-mrq-regress", "C08", "analysis/drt/mrq_fit.py", "        residuals=_calculate_residuals(Z_exp=data.get_impedances(), Z_fit=Z_fit),", "        residuals=fit.residuals,", "fire", "MRQFitResult:residuals-source")
V("c08-zhit-regress", "C08", "analysis/zhit/__init__.py", "        pseudo_chisqr=_calculate_pseudo_chisqr(\n            Z_exp=data.get_impedances(),\n            Z_fit=Z_fit,\n        ),", "        pseudo_chisqr=pseudo_chisqr,", "fire", "ZHITResult:chisqr-source")
V("c08-kk-weight", "C08", "analysis/kramers_kronig/exploratory.py", "    fits.sort(key=lambda f: f[0])\n    weight = _boukamp_weight(Z_exp, admittance=False)\n    pseudo_chisqrs: List[float] = [\n        _calculate_pseudo_chisqr(\n            Z_exp,\n            circuit.get_impedances(f),\n            weight,\n        )\n        for (num_RC, circuit) in fits\n    ]\n\n    return _KKFits(\n        log_F_ext=log_F_ext,\n        num_RCs=[f[0] for f in fits],\n        circuits=[f[1] for f in fits],\n        pseudo_chisqrs=pseudo_chisqrs,\n    )\n\n\ndef _use_cnls(",
  "    fits.sort(key=lambda f: f[0])\n    weight = _boukamp_weight(Z_exp, admittance=admittance)\n    pseudo_chisqrs: List[float] = [\n        _calculate_pseudo_chisqr(\n            Z_exp,\n            circuit.get_impedances(f),\n            weight,\n        )\n        for (num_RC, circuit) in fits\n    ]\n\n    return _KKFits(\n        log_F_ext=log_F_ext,\n        num_RCs=[f[0] for f in fits],\n        circuits=[f[1] for f in fits],\n        pseudo_chisqrs=pseudo_chisqrs,\n    )\n\n\ndef _use_cnls(", "fire", "_use_matrix_inversion:pairing")
V("c08-benign-keyword-args", "C08", "analysis/drt/tr_nnls.py", "        residuals=_calculate_residuals(Z_exp, Z_fit),\n        pseudo_chisqr=_calculate_pseudo_chisqr(Z_exp, Z_fit),\n        lambda_value=lambda_value,", "        residuals=_calculate_residuals(Z_exp=Z_exp, Z_fit=Z_fit),\n        pseudo_chisqr=_calculate_pseudo_chisqr(Z_fit=Z_fit, Z_exp=Z_exp),\n        lambda_value=lambda_value,", "silent")

# ---------------------------------------------------------------- C17
V("c17-zhit-key-regress", "C17", "analysis/zhit/offset.py", "    return sorted(results, key=lambda _: (_[0], _[2], _[3], _[4]))", "    return sorted(results, key=lambda _: _[0])", "fire", "partial-key")
V("c17-serial-other-worker", "C17", "analysis/zhit/offset.py", "        for res in map(_adjust_offset, args):", "        for res in map(_adjust_offset, reversed(args)):", "fire", "twin")
V("c17-new-random", "C17", "analysis/drt/tr_nnls.py", "        g_tau = _solve(A_tikh, b, maxiter)\n        prog.increment()\n", "        from numpy.random import rand\n        g_tau = _solve(A_tikh, b + 0 * rand(b.size), maxiter)\n        prog.increment()\n", "fire", "rand")
V("c17-mock-unseeded", "C17", "mock_data.py", "    rs: RandomState = RandomState(seed=seed)", "    rs: RandomState = RandomState()", "fire", "mock_data")
V("c17-num-procs-chunks", "C17", "analysis/drt/bht.py", "        for _ in range(0, num_attempts)\n    )", "        for _ in range(0, num_attempts + num_procs)\n    )", "fire", "num_procs-use")
V("c17-fit-unordered", "C17", FIT, "                iterator = pool.imap(_fit_process, args, 1)", "                iterator = pool.imap_unordered(_fit_process, args, 1)", "fire", "fit_circuit")
V("c17-benign-serial-comprehension", "C17", "analysis/drt/tr_nnls.py", "        g_tau = _solve(A_tikh, b, maxiter)\n        prog.increment()\n", "        g_tau = _solve(A_tikh, b, maxiter)\n        prog.increment(1)\n", "silent")

# ---------------------------------------------------------------- C12
V("c12-min-max-swapped", "C12", FIT, "                min=lower_limits[symbol],\n                max=upper_limits[symbol],", "                min=upper_limits[symbol],\n                max=lower_limits[symbol],", "fire", "_to_lmfit:semantics")
V("c12-vary-fixed", "C12", FIT, "                vary=not fixed[symbol],", "                vary=fixed[symbol],", "fire", "_to_lmfit:semantics")
V("c12-fit-original", "C12", FIT, "    circuit = deepcopy(original_circuit)", "    circuit = original_circuit", "fire", "original-used")
V("c12-no-writeback", "C12", FIT, "    _from_lmfit(fit.params, identifiers)\n\n    return (\n        circuit,\n        _calculate_pseudo_chisqr", "    return (\n        circuit,\n        _calculate_pseudo_chisqr", "fire", "no-writeback")
V("c12-winner-reversed", "C12", FIT, "        fits.sort(key=lambda _: log(_[1]) if _[2] is not None else inf)", "        fits.sort(key=lambda _: log(_[1]) if _[2] is not None else inf, reverse=True)", "fire", "fit_circuit:winner")
V("c12-limit-refusal-dropped", "C12", FIT, "            if not (lower_limits[symbol] <= value <= upper_limits[symbol]):\n                raise ValueError(\n                    f\"Expected {lower_limits[symbol]=} <= {value} <= {upper_limits[symbol]=} for {symbol=}\"\n                )\n\n", "", "fire", "_to_lmfit:semantics")
V("c12-params-other-circuit", "C12", FIT, "        parameters=_extract_parameters(circuit, fit),", "        parameters=_extract_parameters(deepcopy(circuit), fit),", "fire", "parameters-source")
V("c12-benign-comment", "C12", FIT, "    circuit = deepcopy(original_circuit)", "    # work on a private copy\n    circuit = deepcopy(original_circuit)", "silent")

# ---------------------------------------------------------------- C18
V("c18-trnnls-total", "C18", "analysis/drt/tr_nnls.py", "    with Progress(\"Preparing matrices\", total=6) as prog:", "    with Progress(\"Preparing matrices\", total=5) as prog:", "fire", "calculate_drt_tr_nnls:budget")
V("c18-zhit-sixth-smoother", "C18", "analysis/zhit/smoothing/__init__.py", "            \"savgol\",\n            \"whithend\",\n        ]\n        if smoothing == \"auto\"", "            \"savgol\",\n            \"whithend\",\n            \"modsinc2\",\n        ]\n        if smoothing == \"auto\"", "fire", "perform_zhit:budget")
V("c18-zhit-literal", "C18", "analysis/zhit/__init__.py", "    num_smoothing: int = 5 if smoothing == \"auto\" else 1", "    num_smoothing: int = 4 if smoothing == \"auto\" else 1", "fire", "perform_zhit:budget")
V("c18-fit-total", "C18", FIT, "    with Progress(\"Preparing to fit\", total=num_steps + 1) as prog:", "    with Progress(\"Preparing to fit\", total=num_steps) as prog:", "fire", "fit_circuit:budget")
V("c18-fit-extra-increment", "C18", FIT, "        if not fits:\n            raise FittingError(\"No valid results generated!\")\n", "        if not fits:\n            raise FittingError(\"No valid results generated!\")\n\n        prog.increment()\n", "fire", "fit_circuit:budget")
V("c18-interp-arm-removed", "C18", "analysis/zhit/interpolation.py", "    elif interpolation == \"makima\":\n        return Akima1DInterpolator(ln_omega, phase, method=\"makima\")\n", "", "fire", "interpolation:auto-not-handled")
V("c18-increment-guard", "C18", "progress.py", "        self._i += step\n        if not (self._i <= self._total):\n            raise ValueError(f\"Expected {self._i=} <= {self._total=}\")\n\n        self._update(force=force)", "        self._i += step\n        self._update(force=force)", "fire", "Progress.increment:guard")
V("c18-kk-steps", "C18", "analysis/kramers_kronig/exploratory.py", "    num_steps: int = 2  # Calculating weight and preparing arguments", "    num_steps: int = 1  # Calculating weight and preparing arguments", "fire", "evaluate_log_F_ext:budget")
V("c18-benign-more-slack", "C18", FIT, "    with Progress(\"Preparing to fit\", total=num_steps + 1) as prog:", "    with Progress(\"Preparing to fit\", total=num_steps + 2) as prog:", "silent")

# ---------------------------------------------------------------- C07
KLS = "analysis/kramers_kronig/least_squares.py"
KMI = "analysis/kramers_kronig/matrix_inversion.py"
V("c07-cap-sign", "C07", KLS, "    if test == \"complex\":\n        A[m // 2:, i] = w if admittance else (-1 / w)", "    if test == \"complex\":\n        A[m // 2:, i] = w if admittance else (1 / w)", "fire", "least_squares:complex:Z")
V("c07-imag-block", "C07", KLS, "        A[0:m // 2, i] = c.real\n        A[m // 2:, i] = c.imag", "        A[0:m // 2, i] = c.real\n        A[m // 2:, i] = c.real", "fire", "least_squares:complex")
V("c07-mi-L-sign", "C07", KMI, "            L = 1 / L\n\n        L *= -1\n", "            L = 1 / L\n\n", "fire", "matrix_inversion")
V("c07-mi-kth-adm", "C07", KMI, "            A_im[:, i + 1] = w / (1 + (w * tau) ** 2)", "            A_im[:, i + 1] = -w / (1 + (w * tau) ** 2)", "fire", "matrix_inversion")
V("c07-ls-mapping-C", "C07", KLS, "                element.set_values(C=C if admittance else 1 / C)", "                element.set_values(C=C)", "fire", "least_squares")
V("c07-pop-order", "C07", KMI, "    # Series or parallel L\n    L: float64\n    L, variables = variables[-1], variables[:-1]", "    # Series or parallel L\n    L: float64\n    L, variables = variables[-2], variables[:-1]", "fire", "_update_circuit:positions")
V("c07-ky-element", "C07", "circuit/kramers_kronig.py", 'equation="1/((C*2*pi*f)/(2*pi*f*tau-I))"', 'equation="1/((C*2*pi*f)/(2*pi*f*tau+I))"', "fire", ":Y:")
V("c07-benign-power", "C07", KLS, "    if test == \"complex\":\n        A[m // 2:, i] = (1 / w) if admittance else w", "    if test == \"complex\":\n        A[m // 2:, i] = (w ** -1) if admittance else w", "silent")

# ---------------------------------------------------------------- C09
KUT = "analysis/kramers_kronig/utility.py"
V("c09-tau-max", "C09", KUT, "    tau_max: float64 = F_ext / min(w)", "    tau_max: float64 = F_ext * min(w)", "fire", "_generate_time_constants:scaling")
V("c09-weight-power", "C09", "analysis/utility.py", "    return (Z_exp.real**2 + Z_exp.imag**2) ** -1  # type: ignore", "    return (Z_exp.real**2 + Z_exp.imag**2) ** -2  # type: ignore", "fire", "_boukamp_weight:degree")
V("c09-inhomogeneous-column", "C09", KLS, "        return 1 / (1 + 1j * w * tau)", "        return 1 / (1 + 1j * w * tau**2)", "fire", "column-k")
V("c09-literal", "C09", KMI, "        if C == 0.0:\n            C = 1e-50", "        if C == 0.0:\n            C = 1e-50\n        else:\n            C = 2.5", "fire", "R9.5")
V("c09-tau-from-first-point", "C09", KUT, "    tau_min: float64 = 1 / (max(w) * F_ext)", "    tau_min: float64 = 1 / (w[0] * F_ext)", "fire", "_generate_time_constants")
V("c09-benign-power-form", "C09", KUT, "    tau_min: float64 = 1 / (max(w) * F_ext)", "    tau_min: float64 = (max(w) * F_ext) ** -1", "silent")

# ---------------------------------------------------------------- C13
NNLS = "analysis/drt/tr_nnls.py"
V("c13-kernel-denominator", "C13", NNLS, "        A[i, :] = (product if is_imaginary else 1) * delta_ln_tau / (1 + product**2)", "        A[i, :] = (product if is_imaginary else 1) * delta_ln_tau / (1 + product)", "fire", "_generate_A_matrix")
V("c13-model-kernel", "C13", NNLS, "            * ((product if is_imaginary else 1) * g_tau / (1 + product**2))", "            * ((1 if is_imaginary else 1) * g_tau / (1 + product**2))", "fire", "_generate_model_impedance:imaginary")
V("c13-b-sign", "C13", NNLS, "    return A.T @ (-Z_norm.imag if is_imaginary else Z_norm.real)", "    return A.T @ (Z_norm.imag if is_imaginary else Z_norm.real)", "fire", "_generate_b_vector")
V("c13-loewner-sign", "C13", "analysis/drt/lm.py", "    gammas: Gammas = (-residues / eigenvalues).real", "    gammas: Gammas = (residues / eigenvalues).real", "fire", "_extract_peaks:partial-fraction")
V("c13-rq-prefactor", "C13", "analysis/drt/mrq_fit.py", "                (R / (2 * pi))\n                * (sin((1 - n) * pi))", "                (R / pi)\n                * (sin((1 - n) * pi))", "fire", "_calculate_tau_gamma:RQ")
V("c13-gauss-norm", "C13", "analysis/drt/mrq_fit.py", "                R / (W * sqrt(pi)) * exp(-((ln(tau / tau_0) / W) ** 2))", "                R / (W * pi) * exp(-((ln(tau / tau_0) / W) ** 2))", "fire", "RC-area")
V("c13-gamma-not-scaled", "C13", NNLS, "        gamma: Gammas = g_tau * R_pol", "        gamma: Gammas = g_tau", "fire", "calculate_drt_tr_nnls:gamma")
V("c13-benign-power", "C13", NNLS, "        A[i, :] = (product if is_imaginary else 1) * delta_ln_tau / (1 + product**2)", "        A[i, :] = (product if is_imaginary else 1) * delta_ln_tau * (1 + product**2) ** -1", "silent")

# ---------------------------------------------------------------- C11
ZREC = "analysis/zhit/reconstruction.py"
ZOFF = "analysis/zhit/offset.py"
ZWGT = "analysis/zhit/weights.py"
V("c11-gamma", "C11", ZREC, "gamma = -pi / 6", "gamma = pi / 6", "fire", "_reconstruct:formula")
V("c11-prefactor", "C11", ZREC, "ln_modulus.append(2 / pi * integral + gamma * derivative)", "ln_modulus.append(1 / pi * integral + gamma * derivative)", "fire", "_reconstruct:formula")
V("c11-admittance-sign", "C11", ZREC, "ln_modulus.append(-(-2 / pi * integral - gamma * derivative))", "ln_modulus.append(-(2 / pi * integral + gamma * derivative))", "fire", "_reconstruct:formula")
V("c11-start", "C11", ZREC, "ln_w_s: float = ln_omega[0]", "ln_w_s: float = ln_omega[-1]", "fire", "_reconstruct:formula")
V("c11-weights-dropped", "C11", ZOFF, "return weights * errors", "return errors", "fire", "_offset_residual:weights")
V("c11-weights-added", "C11", ZOFF, "return weights * errors", "return weights + errors", "fire", "_offset_residual:weights")
V("c11-benign-formula", "C11", ZREC, "ln_modulus.append(2 / pi * integral + gamma * derivative)", "ln_modulus.append(gamma * derivative + integral * 2 / pi)", "silent")
V("c11-negative-weights-accepted", "C11", ZOFF, "    if where(weights < 0.0)[0].size > 0:\n        raise ZHITError(\"Weights must be non-negative values!\")\n", "", "fire", "_calculate_modulus_offset:refusals")
V("c11-phase-mispaired", "C11", ZREC, "                    ln_modulus,\n                    simulated_phase[interpolation][smoothing],\n                    smoothing,", "                    ln_modulus,\n                    simulated_phase[interpolation][list(simulated_phase[interpolation])[0]],\n                    smoothing,", "fire", "phase-pairing")
V("c11-no-clip", "C11", ZWGT, "weights[indices] = 1.0", "weights[indices] = weights[indices]", "fire", "_generate_weights:support")
V("c11-benign-residual", "C11", ZOFF, "return weights * errors", "return errors * weights", "silent")

# ---------------------------------------------------------------- round-4 seeds distilled
V("c20-label-truncated", "C20", "circuit/diagrams/schemdraw.py", "label: str = elem.get_label() or str(identifiers[elem])", "label: str = (elem.get_label() or str(identifiers[elem])).split(\"_\")[-1]", "fire", "to_drawing:labels")
V("c16-label-strip-after", "C16", BASE, "        label = label.strip()\n\n        if label != \"\":\n            if not all(map(str.isascii, label)):", "        if label != \"\":\n            if not all(map(str.isascii, label)):", "silent")
VM("c16-label-strip-late", "C16", [(BASE, "        label = label.strip()\n\n        if label != \"\":\n            if not all(map(str.isascii, label)):", "        if label != \"\":\n            if not all(map(str.isascii, label)):"),
                                   (BASE, "        self._label = label\n\n        return self", "        self._label = label.strip()\n\n        return self")], "fire", "set_label:stored-is-validated")
V("c16-benign-isdigit-method", "C16", BASE, "            if all(map(str.isdigit, label)):", "            if label.isdigit():", "silent")
V("c03-benign-isdigit-method", "C03", BASE, "            if all(map(str.isdigit, label)):", "            if label.isdigit():", "silent")
KKMI = "analysis/kramers_kronig/matrix_inversion.py"
KKLS = "analysis/kramers_kronig/least_squares.py"
V("c07-tolerant-zero-guard", "C07", KKMI, "        if C == 0.0:\n            C = 1e-50", "        if abs(C) < 1e-8:\n            C = 1e-50", "fire", "zero-guard:C")
V("c09-tolerant-zero-guard", "C09", KKLS, "                if R == 0.0:\n                    R = inf", "                if abs(R) < 1e-8:\n                    R = inf", "fire", "zero-guard:R")
V("c07-benign-zero-guard-int", "C07", KKMI, "        if C == 0.0:\n            C = 1e-50", "        if C == 0:\n            C = 1e-50", "silent")

# ---------------------------------------------------------------- C19
CFIT = "cli/fit.py"
CDRT = "cli/drt.py"
CUTIL = "cli/utility.py"
V("c19-swap-options", "C19", CFIT, "                method=args.method,\n                weight=args.weight,\n                max_nfev=args.max_nfev,\n                num_procs=args.num_procs,\n                timeout=args.timeout,\n            )\n            for _",
  "                method=args.weight,\n                weight=args.method,\n                max_nfev=args.max_nfev,\n                num_procs=args.num_procs,\n                timeout=args.timeout,\n            )\n            for _", "fire", "fit_circuit:method")
V("c19-refinement-drops-option", "C19", CFIT, "                    max_nfev=args.max_nfev,\n                    num_procs=args.num_procs,\n                    timeout=args.timeout,\n                )\n            clear", "                    num_procs=args.num_procs,\n                    timeout=args.timeout,\n                )\n            clear", "fire", "max_nfev:not-forwarded")
V("c19-refinement-restarts", "C19", CFIT, "                fit = fit_circuit(\n                    fit.circuit,", "                fit = fit_circuit(\n                    circuit,", "fire", "fit.command:refinement")
V("c19-filters-swapped", "C19", CUTIL, "        data.low_pass(args.low_pass_cutoff)", "        data.high_pass(args.low_pass_cutoff)", "fire", "apply_filters:mapping")
V("c19-filter-after-use", "C19", "cli/parse.py", "        num_data: int = len(data_sets)\n        list(map(lambda _: apply_filters(_, args), data_sets))\n", "        num_data: int = len(data_sets)\n", "fire", "parse.command:filters")
V("c19-format-wrong-writer", "C19", CUTIL, "        output = df.to_json()", "        output = df.T.to_json()", "fire", "format_text:dispatch")
V("c19-format-rounds", "C19", CUTIL, "    output_extension: str = get_text_extension(args.output_format)\n\n    output: str", "    output_extension: str = get_text_extension(args.output_format)\n    df = df.round(3)\n\n    output: str", "fire", "format_text:dispatch")
V("c19-mock-key-renamed", "C19", CUTIL, "        \"num_per_decade\": int,\n        \"log_max_f\"", "        \"points_per_decade\": int,\n        \"log_max_f\"", "fire", "_parse_identity:keys")
V("c19-drt-sibling", "C19", CDRT, "                num_attempts=args.num_attempts,\n                maximum_symmetry=args.maximum_symmetry,\n                circuit=parse_cdc(args.circuit),\n                gaussian_width=args.gaussian_width,\n                num_per_decade=args.num_per_decade,\n                max_nfev=args.max_nfev,\n                max_iter=args.max_iter,\n                model_order=args.model_order,\n                model_order_method=args.model_order_method,\n                num_procs=args.num_procs,\n            )\n            drts.append(",
  "                num_attempts=args.num_attempts,\n                maximum_symmetry=args.maximum_symmetry,\n                circuit=parse_cdc(args.circuit),\n                gaussian_width=args.gaussian_width,\n                num_per_decade=args.num_per_decade,\n                max_nfev=args.max_iter,\n                max_iter=args.max_nfev,\n                model_order=args.model_order,\n                model_order_method=args.model_order_method,\n                num_procs=args.num_procs,\n            )\n            drts.append(", "fire", "calculate_drt:max_nfev")
V("c19-report-stale", "C19", CFIT, "                        fit.to_parameters_dataframe(running=args.running_count),", "                        first.to_parameters_dataframe(running=args.running_count),", "fire", "provenance")
V("c19-emission-removed", "C19", "cli/circuit.py", "        else:\n            print_func(result)\n\n        plt.close()", "        plt.close()", "fire", "circuit.individual_plots:result:not-emitted")
V("c19-benign-kw-order", "C19", CFIT, "                method=args.method,\n                weight=args.weight,\n                max_nfev=args.max_nfev,\n                num_procs=args.num_procs,\n                timeout=args.timeout,\n            )\n            for _",
  "                weight=args.weight,\n                method=args.method,\n                max_nfev=args.max_nfev,\n                num_procs=args.num_procs,\n                timeout=args.timeout,\n            )\n            for _", "silent")

# ---------------------------------------------------------------- C06
V("c06-table-order", "C06", DS, "            \"real\": [\"z'\", \"z re\", \"z_re\", \"zre\", \"real\", \"re\"],\n            \"magnitude\": [\"|z|\", \"z\", \"magnitude\", \"modulus\", \"mag\", \"mod\"],",
  "            \"magnitude\": [\"|z|\", \"z\", \"magnitude\", \"modulus\", \"mag\", \"mod\"],\n            \"real\": [\"z'\", \"z re\", \"z_re\", \"zre\", \"real\", \"re\"],", "fire", "shadowed")
V("c06-alias-dropped", "C06", DS, "            \"phase\": [\"phase\", \"phz\", \"phi\"],", "            \"phase\": [\"phase\", \"phz\"],", "fire", "documented:phase:phi")
V("c06-negation-wrong-flag", "C06", DS, "            if negative_columns[\"imaginary\"]:\n                im *= -1", "            if negative_columns[\"real\"]:\n                im *= -1", "fire", "_extract_data:semantics")
V("c06-negation-dropped", "C06", DS, "            if negative_columns[\"phase\"]:\n                phi *= -1\n\n", "", "fire", "_extract_data:semantics")
V("c06-comma-wrong-column", "C06", DS, "                im = float(row[column_indices[\"imaginary\"]].replace(\",\", \".\"))", "                im = float(row[column_indices[\"real\"]].replace(\",\", \".\"))", "fire", "_extract_data:semantics")
V("c06-degrees-inverted", "C06", DS, "        if degrees:\n            phase = deg_to_rad(phase)", "        if not degrees:\n            phase = deg_to_rad(phase)", "fire", "_extract_data:semantics")
V("c06-single-point", "C06", DS, "    decreasing_f: bool = len(frequency) > 1 and frequency[0] > frequency[1]", "    decreasing_f: bool = frequency[0] > frequency[1]", "fire", "_split_sweeps:index:frequency[1]")
V("c06-cut-mismatch", "C06", DS, "        real = real[i:]\n", "        real = real[i - 1:]\n", "fire", "_split_sweeps:partition")
V("c06-mpt-sign", "C06", "data/formats/mpt.py", "        imag.append(-_parse_string_as_float(columns[2]))", "        imag.append(_parse_string_as_float(columns[2]))", "fire", "mpt:columns")
V("c06-i2b-sign", "C06", "data/formats/i2b.py", "        imag.append(im)", "        imag.append(-im)", "fire", "i2b:columns")
V("c06-dispatch", "C06", "data/__init__.py", "        \".dfr\": parse_dfr,", "        \".dfr\": parse_dta,", "fire", "get_parsers:.dfr")
V("c06-writer-header", "C06", DS, "                \"Mod(Z) (ohm)\",", "                \"|Z| (ohm)\",", "silent")
V("c06-writer-header-bad", "C06", DS, "                \"Re(Z) (ohm)\",", "                \"Z real (ohm)\",", "silent")
V("c06-writer-header-bad2", "C06", DS, "                \"Im(Z) (ohm)\",", "                \"Z (imag.) (ohm)\",", "fire", "to_dataframe:headers")
V("c06-benign-guard-form", "C06", DS, "    decreasing_f: bool = len(frequency) > 1 and frequency[0] > frequency[1]", "    decreasing_f: bool = (frequency[0] > frequency[1]) if len(frequency) >= 2 else False", "silent")
V("c11-benign-merged-branches", "C11", ZREC, "        if admittance:\n            ln_modulus.append(-(-2 / pi * integral - gamma * derivative))\n        else:\n            ln_modulus.append(2 / pi * integral + gamma * derivative)",
  "        ln_modulus.append(2 / pi * integral + gamma * derivative)", "silent")
V("c13-benign-hoisted-log", "C13", "analysis/drt/mrq_fit.py", "                R / (W * sqrt(pi)) * exp(-((ln(tau / tau_0) / W) ** 2))", "                R / (W * sqrt(pi)) * exp(-(((ln(tau) - ln(tau_0)) / W) ** 2))", "silent")
V("c19-merged-no-rebind", "C19", CFIT, "            fit: FitResult = fit_circuit(\n                circuit,\n                data=data,\n                method=args.method,\n                weight=args.weight,\n                max_nfev=args.max_nfev,\n                num_procs=args.num_procs,\n                timeout=args.timeout,\n            )\n            for _ in range(0, args.num_refinements):\n                fit = fit_circuit(\n                    fit.circuit,",
  "            fit: FitResult\n            start = circuit\n            for _ in range(0, args.num_refinements + 1):\n                fit = fit_circuit(\n                    start,", "fire", "refinement")
VM("c19-benign-merged-refinement", "C19", [(CFIT, "            fit: FitResult = fit_circuit(\n                circuit,\n                data=data,\n                method=args.method,\n                weight=args.weight,\n                max_nfev=args.max_nfev,\n                num_procs=args.num_procs,\n                timeout=args.timeout,\n            )\n            for _ in range(0, args.num_refinements):\n                fit = fit_circuit(\n                    fit.circuit,",
  "            fit: FitResult\n            start = circuit\n            for _ in range(0, args.num_refinements + 1):\n                fit = fit_circuit(\n                    start,"),
  (CFIT, "                    timeout=args.timeout,\n                )\n            clear_default_handler_output()", "                    timeout=args.timeout,\n                )\n                start = fit.circuit\n            clear_default_handler_output()")], "silent")
VM("c19-merged-carried-over", "C19", [(CFIT, "            fit: FitResult = fit_circuit(\n                circuit,\n                data=data,\n                method=args.method,\n                weight=args.weight,\n                max_nfev=args.max_nfev,\n                num_procs=args.num_procs,\n                timeout=args.timeout,\n            )\n            for _ in range(0, args.num_refinements):\n                fit = fit_circuit(\n                    fit.circuit,",
  "            fit: FitResult\n            for _ in range(0, args.num_refinements + 1):\n                fit = fit_circuit(\n                    circuit,"),
  (CFIT, "                    timeout=args.timeout,\n                )\n            clear_default_handler_output()", "                    timeout=args.timeout,\n                )\n                circuit = fit.circuit\n            clear_default_handler_output()")], "fire", "carried-over")

# ---------------------------------------------------------------- C10 (containment clause)
KALG = "analysis/kramers_kronig/algorithms/__init__.py"
V("c10-filter-dropped", "C10", KALG, "    tests = [t for t in tests if lower_limit <= t.num_RC <= upper_limit]\n", "    tests = [t for t in tests if lower_limit <= t.num_RC]\n", "fire", "_suggest_using_default:filter")
V("c10-candidate-from-all", "C10", KALG, "            suggested_test = [t for t in tests if t.num_RC == num_RC][0]\n            break\n\n    return (suggested_test, relative_scores, lower_limit, upper_limit)",
  "            suggested_test = [t for t in kwargs.get(\"all_tests\", tests) if t.num_RC == num_RC][0]\n            break\n\n    return (suggested_test, relative_scores, lower_limit, upper_limit)", "fire", "candidate-source")
V("c10-limits-widened-after", "C10", KALG, "    return (suggested_test, relative_scores, lower_limit, upper_limit)", "    upper_limit = min(upper_limit, suggested_test.num_RC - 1) if limit_delta < 0 else upper_limit\n    return (suggested_test, relative_scores, lower_limit, upper_limit)", "fire", "_suggest_using_default:return")
V("c10-benign-sort-key", "C10", KALG, "    suggested_test: KramersKronigResult = sorted(\n        tests,\n        key=lambda t: relative_scores.get(t.num_RC, 0.0),\n        reverse=True,\n    )[0]",
  "    suggested_test: KramersKronigResult = sorted(\n        tests,\n        key=lambda t: -relative_scores.get(t.num_RC, 0.0),\n    )[0]", "silent")
V("c06-direction-first-last", "C06", DS, "    decreasing_f: bool = len(frequency) > 1 and frequency[0] > frequency[1]", "    decreasing_f: bool = len(frequency) > 1 and frequency[0] > frequency[-1]", "fire", "_split_sweeps:partition")
VM("c06-benign-separators-constant", "C06", [("data/formats/csv.py", "def parse_csv(", "FALLBACK_SEPARATORS = [\"\\t\", \" \", \";\", \",\"]\n\n\ndef parse_csv("),
   ("data/formats/csv.py", "        separators: List[str] = [\n            \"\\t\",\n            \" \",\n            \";\",\n            \",\",\n        ]\n", "        separators: List[str] = list(FALLBACK_SEPARATORS)\n")], "silent")
VM("c06-separators-consumed", "C06", [("data/formats/csv.py", "def parse_csv(", "separators = [\"\\t\", \" \", \";\", \",\"]\n\n\ndef parse_csv("),
   ("data/formats/csv.py", "        separators: List[str] = [\n            \"\\t\",\n            \" \",\n            \";\",\n            \",\",\n        ]\n", "")], "fire", "parse_csv:separators")

V("c01-open-counted-as-short", "C01", PAR, "            inf_indices: Indices = where(isinf(Z))[0]", "            inf_indices: Indices = where(isinf(Z) | (Z == 0.0))[0]", "fire", "Parallel._impedance:law")
V("c01-short-not-zero", "C01", PAR, "                shorted[zero_indices] = True\n", "                pass\n", "fire", "Parallel._impedance:law")
V("c01-all-open-not-refused", "C01", PAR, "        elif num_open_paths == len(self._elements):\n            raise InfiniteImpedance()\n", "", "fire", "Parallel._impedance:law")
V("c03-param-upper-as-lower", "C03", PARSER, "                lower = self.param_limit(value.value, upper=False)\n                if self.accept(ForwardSlash):\n                    self.pop_token()\n                    upper = self.param_limit(value.value, upper=True)", "                upper = self.param_limit(value.value, upper=False)\n                if self.accept(ForwardSlash):\n                    self.pop_token()\n                    lower = self.param_limit(value.value, upper=True)", "fire", "Parser.param:limit-order")
V("c03-percent-of-limit", "C03", PARSER, "            return value * limit.value / 100", "            return limit.value / 100", "fire", "Parser.param:limit-order")
V("c03-label-before-params", "C03", PARSER, "                    lower_limits[key] = lower\n", "                    lower_limits[key] = upper\n", "fire", "Parser.parameters:round-trip")
V("c05-getter-predicate", "C05", DS, "                for i, c in enumerate(self._impedances)\n                if self._mask.get(i, False) == masked", "                for i, c in enumerate(self._impedances)\n                if self._mask.get(i, False) != masked", "fire", "DataSet:state-machine")
V("c05-setmask-empty-noop", "C05", DS, "        if len(mask) == 0:\n            self._mask.update({i: False for i in range(0, self._num_points)})\n            return\n", "        if len(mask) == 0:\n            return\n", "fire", "DataSet:state-machine")
V("c05-subtract-nothing", "C05", DS, "        self._impedances = self._impedances - impedances", "        self._impedances = self._impedances - impedances * 0", "fire", "DataSet:state-machine")
