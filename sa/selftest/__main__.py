"""Self-test of the checkers: python3-vt -m sa.selftest [-j N] [--only C02,C05] [--list]

Every variant is a text edit (old→new, `old` must occur exactly once) applied
to a scratch copy of /repo/src under a temporary directory outside /repo and
/verif.  A *breaking* variant must make the named check exit 1 and report a
finding whose key contains `key`; a *benign* twin must leave it silent (exit
0).  The scratch copy is removed immediately afterwards.  Exit 0 iff every
variant behaves as expected; exit 2 otherwise (the machinery is broken, not
the repository)."""
from __future__ import annotations

import argparse
import os
import shutil
import subprocess
import sys
import tempfile
from concurrent.futures import ThreadPoolExecutor
from pathlib import Path

from .variants import VARIANTS

VERIF = Path(__file__).resolve().parent.parent.parent
REPO = Path(os.environ.get("SA_REPO") or "/repo")


def run_variant(v) -> dict:
    tmp = Path(tempfile.mkdtemp(prefix="sa-selftest-"))
    try:
        shutil.copytree(REPO / "src", tmp / "src", ignore=shutil.ignore_patterns("__pycache__", "*.pyc", "*.egg-info"))
        edits = v.get("edits") or [dict(file=v["file"], old=v["old"], new=v["new"])]
        for e in edits:
            p = tmp / "src" / "pyimpspec" / e["file"]
            s = p.read_text()
            if s.count(e["old"]) != 1:
                return dict(v=v, ok=False, why=f"edit anchor occurs {s.count(e['old'])} times in {e['file']} (expected 1)", out="")
            p.write_text(s.replace(e["old"], e["new"]))
            try:
                compile(p.read_text(), str(p), "exec")
            except SyntaxError as ex:
                return dict(v=v, ok=False, why=f"variant does not compile: {ex}", out="")
        ev = tmp / "evidence.json"
        cmd = [sys.executable, "-m", "sa.run", v["prop"], "--tier", "quick", "--repo", str(tmp), "--evidence", str(ev)]
        env = dict(os.environ, SA_REPLAY_DIR=str(tmp / "replay"))
        pr = subprocess.run(cmd, cwd=str(VERIF), env=env, stdout=subprocess.PIPE, stderr=subprocess.STDOUT, text=True, timeout=900)
        out = pr.stdout
        findings = [l for l in out.splitlines() if l.strip().startswith("finding:")]
        if v["expect"] == "fire":
            hit = [l for l in findings if v.get("key", "") in l]
            ok = pr.returncode == 1 and bool(hit)
            why = "" if ok else f"expected exit 1 with a finding containing {v.get('key')!r}; got exit {pr.returncode}, findings: {findings[:3]}"
        else:
            ok = pr.returncode == 0
            why = "" if ok else f"expected silence; got exit {pr.returncode}: {(findings or out.splitlines()[-3:])[:3]}"
        return dict(v=v, ok=ok, why=why, out=out)
    except subprocess.TimeoutExpired:
        return dict(v=v, ok=False, why="timeout", out="")
    finally:
        shutil.rmtree(tmp, ignore_errors=True)


def main() -> int:
    ap = argparse.ArgumentParser()
    ap.add_argument("-j", type=int, default=min(16, os.cpu_count() or 4))
    ap.add_argument("--only", default="")
    ap.add_argument("--list", action="store_true")
    ap.add_argument("-v", action="store_true")
    args = ap.parse_args()
    vs = VARIANTS
    if args.only:
        want = set(args.only.upper().split(","))
        vs = [v for v in vs if v["prop"] in want or v["id"] in args.only.split(",")]
    if args.list:
        for v in vs:
            print(f"{v['id']:40s} {v['prop']} {v['expect']:6s} {v.get('key', '')}")
        return 0
    with ThreadPoolExecutor(max_workers=args.j) as ex:
        results = list(ex.map(run_variant, vs))
    bad = [r for r in results if not r["ok"]]
    for r in results:
        v = r["v"]
        print(f"{'ok  ' if r['ok'] else 'FAIL'} {v['id']:44s} {v['prop']} {v['expect']:6s} {r['why']}")
        if args.v and not r["ok"]:
            print(r["out"])
    n_fire = sum(1 for v in vs if v["expect"] == "fire")
    print(f"selftest: {len(results) - len(bad)}/{len(results)} variants as expected ({n_fire} breaking, {len(vs) - n_fire} benign)")
    return 0 if not bad else 2


if __name__ == "__main__":
    sys.exit(main())
