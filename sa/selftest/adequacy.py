"""Mutation-adequacy pass of the thorough tier: run this property's self-test variants against the tree under analysis.

A variant whose edit anchor is not present exactly once in that tree is *not applicable* (the tree has drifted from the
one the variant was written for) and is skipped, never failed.  Scratch copies live in a temporary directory and are
removed at once."""
from __future__ import annotations

import os
from concurrent.futures import ThreadPoolExecutor
from typing import Any, Dict


def adequacy(prop: str, repo_root: str) -> Dict[str, Any]:
    os.environ["SA_REPO"] = repo_root
    from . import __main__ as st
    from pathlib import Path
    st.REPO = Path(repo_root)
    from .variants import VARIANTS
    vs = [v for v in VARIANTS if v["prop"] == prop]
    env_backup = os.environ.get("SA_NO_ADEQUACY")
    os.environ["SA_NO_ADEQUACY"] = "1"
    try:
        with ThreadPoolExecutor(max_workers=min(16, os.cpu_count() or 4)) as ex:
            results = list(ex.map(st.run_variant, vs))
    finally:
        if env_backup is None:
            os.environ.pop("SA_NO_ADEQUACY", None)
        else:
            os.environ["SA_NO_ADEQUACY"] = env_backup
    summ = dict(breaking_applied=0, breaking_fired=0, benign_applied=0, benign_silent=0, skipped=0, variants=[v["id"] for v in vs])
    bad = []
    for r in results:
        v = r["v"]
        if not r["ok"] and "edit anchor occurs" in r["why"]:
            summ["skipped"] += 1
            continue
        if v["expect"] == "fire":
            summ["breaking_applied"] += 1
            summ["breaking_fired"] += bool(r["ok"])
        else:
            summ["benign_applied"] += 1
            summ["benign_silent"] += bool(r["ok"])
        if not r["ok"]:
            bad.append(dict(id=v["id"], expect=v["expect"], why=r["why"][:300]))
    return dict(summary=summ, bad=bad)
