"""Engine C (provenance fragment, pragmatic version): def-use resolution of
local names to canonical expression text, tuple-position plumbing between
packers and unpackers, and mutation summaries (who may mutate a parameter,
inter-procedurally, including the `map(worker, (tuple for …))` idiom)."""
from __future__ import annotations

import ast
import copy
from typing import Dict, List, Optional, Set, Tuple

from .core import AnalysisError, dotted, enclosing, norm, parent, walk_ordered
from .model import FuncInfo, Model

# ---------------------------------------------------------------------------
# local def-use resolution
# ---------------------------------------------------------------------------


def _clone(e: ast.AST) -> ast.AST:
    """Structural copy without the _parent back-links (copy.deepcopy would drag the whole module along)."""
    return ast.parse(ast.unparse(ast.fix_missing_locations(e)), mode="eval").body


def _pos(n: ast.AST) -> Tuple[int, int]:
    return (getattr(n, "lineno", 0), getattr(n, "col_offset", 0))


def assignments(fn: ast.AST, name: str) -> List[Tuple[ast.stmt, Optional[int], str]]:
    """(stmt, tuple index or None, kind) for every binding of `name` in fn.
    kind: assign | aug | for | with | unpack"""
    out = []
    for n in walk_ordered(fn):
        if isinstance(n, (ast.Assign, ast.AnnAssign)):
            if isinstance(n, ast.AnnAssign) and n.value is None:
                continue
            targets = n.targets if isinstance(n, ast.Assign) else [n.target]
            for t in targets:
                if isinstance(t, ast.Name) and t.id == name:
                    out.append((n, None, "assign"))
                elif isinstance(t, (ast.Tuple, ast.List)):
                    for i, e in enumerate(t.elts):
                        if isinstance(e, ast.Name) and e.id == name:
                            out.append((n, i, "unpack"))
        elif isinstance(n, ast.AugAssign) and isinstance(n.target, ast.Name) and n.target.id == name:
            out.append((n, None, "aug"))
        elif isinstance(n, (ast.For, ast.comprehension)):
            t = n.target
            if isinstance(t, ast.Name) and t.id == name:
                out.append((n, None, "for"))
            elif isinstance(t, (ast.Tuple, ast.List)):
                for i, e in enumerate(t.elts):
                    if isinstance(e, ast.Name) and e.id == name:
                        out.append((n, i, "for"))
        elif isinstance(n, ast.With):
            for it in n.items:
                if isinstance(it.optional_vars, ast.Name) and it.optional_vars.id == name:
                    out.append((n, None, "with"))
    return out


class Resolver:
    """Expands local names in an expression to their defining expressions.

    A name is expanded when the last binding textually before the use is a
    plain assignment; augmented assignments between that binding and the use
    wrap the term in modified(...).  Tuple-unpacked names become
    proj(<value>, i).  Loop variables become iter(<iterable>)[i]."""

    def __init__(self, fn: ast.FunctionDef, max_depth: int = 8, max_nodes: int = 1200):
        self.fn = fn
        self.max_depth = max_depth
        self.max_nodes = max_nodes
        a = fn.args
        self.params = {x.arg for x in a.posonlyargs + a.args + a.kwonlyargs}
        self._binds: Dict[str, list] = {}
        self._memo: Dict[Tuple[int, Optional[int]], ast.AST] = {}

    def _method_mutated(self, name: str, lo, hi) -> bool:
        if not hasattr(self, "_mcalls"):
            self._mcalls = {}
            for c in walk_ordered(self.fn):
                if isinstance(c, ast.Call) and isinstance(c.func, ast.Attribute) and isinstance(c.func.value, ast.Name) \
                        and c.func.attr in ("append", "extend", "insert", "sort", "reverse", "pop", "remove", "update", "clear", "add", "setdefault"):
                    self._mcalls.setdefault(c.func.value.id, []).append(_pos(c))
        return any(lo < p < hi for p in self._mcalls.get(name, []))

    def _assignments(self, name: str):
        if name not in self._binds:
            self._binds[name] = assignments(self.fn, name)
        return self._binds[name]

    def _reaching(self, plain, at):
        """The plain bindings (in source order) that may reach `at`: going backwards from the last one, a binding that sits
        in an if-arm / loop / try block not containing the use does not kill the earlier ones; the walk stops at the first
        binding whose enclosing blocks all contain the use, or when the if- and else-arm of one `if` are both covered."""
        def arms(node):
            out = []
            cur = node
            while cur is not None and cur is not self.fn:
                p = getattr(cur, "_parent", None)
                if isinstance(p, ast.If):
                    out.append((id(p), "body" if any(cur is x for x in p.body) else "orelse", p))
                elif isinstance(p, (ast.For, ast.While, ast.Try, ast.With)):
                    out.append((id(p), "block", p))
                cur = p
            return out
        use_blocks = {(a, b) for a, b, _ in arms(at)}
        got = []
        chains = []
        covered = {}
        for b in reversed(plain):
            barms = arms(b[0])
            cond = [(a, w, nd) for a, w, nd in barms if (a, w) not in use_blocks and not isinstance(nd, ast.With)]
            chain = tuple((a, w) for a, w, nd in reversed(cond))  # outermost first
            # killed by a later binding that executes whenever this one does (same block or an enclosing one)
            if any(chain[:len(c)] == c for c in chains):
                continue
            got.append(b)
            chains.append(chain)
            if not cond:
                break
            a, w, nd = cond[0]
            if w in ("body", "orelse") and len(cond) == 1:
                covered.setdefault(a, set()).add(w)
                if covered[a] == {"body", "orelse"}:
                    break
        return list(reversed(got))

    def resolve(self, expr: ast.AST, at: Optional[ast.AST] = None, depth: int = 0) -> ast.AST:
        at = at or expr
        pos = _pos(at)
        me = self

        class T(ast.NodeTransformer):
            def visit_Lambda(self, n):
                return n

            def visit_Name(self, n):
                if not isinstance(n.ctx, ast.Load) or depth >= me.max_depth:
                    return n
                binds = [b for b in me._assignments(n.id) if _pos(b[0]) < pos]
                if not binds:
                    return n
                # last plain binding
                plain = [b for b in binds if b[2] != "aug"]
                if not plain:
                    return n
                stmt, idx, kind = plain[-1]
                # reaching definitions: a binding inside a branch that does not contain the use does not hide earlier ones
                alts = me._reaching(plain, at)
                if len(alts) > 1 and depth < me.max_depth:
                    vals = []
                    for st2, idx2, kind2 in alts:
                        if kind2 not in ("assign", "unpack"):
                            vals = []
                            break
                        v2 = me.resolve(st2.value, st2, depth + 1)
                        if idx2 is not None:
                            v2 = v2.elts[idx2] if isinstance(v2, (ast.Tuple, ast.List)) and idx2 < len(v2.elts) else \
                                ast.Call(func=ast.Name(id="proj", ctx=ast.Load()), args=[v2, ast.Constant(idx2)], keywords=[])
                        vals.append(v2)
                    texts = {ast.unparse(ast.fix_missing_locations(v)) for v in vals}
                    if vals and len(texts) > 1:
                        if sum(1 for v in vals for _ in ast.walk(v)) > me.max_nodes:
                            return n
                        return ast.Call(func=ast.Name(id="phi", ctx=ast.Load()), args=[_clone(v) for v in vals], keywords=[])
                augs = [b for b in binds if b[2] == "aug" and _pos(b[0]) > _pos(stmt)]
                if me._method_mutated(n.id, _pos(stmt), pos):
                    return n  # filled/reordered through methods after its binding: the binding is not its value
                key = (id(stmt), idx)
                if key in me._memo:
                    val = _clone(me._memo[key])
                    if augs:
                        val = ast.Call(func=ast.Name(id="modified", ctx=ast.Load()), args=[val], keywords=[])
                    return val
                if kind in ("assign", "unpack"):
                    val = me.resolve(stmt.value, stmt, depth + 1)
                    if idx is not None:
                        if isinstance(val, (ast.Tuple, ast.List)) and idx < len(val.elts):
                            val = val.elts[idx]
                        else:
                            val = ast.Call(func=ast.Name(id="proj", ctx=ast.Load()), args=[val, ast.Constant(idx)], keywords=[])
                elif kind == "for":
                    it = stmt.iter
                    val = ast.Call(func=ast.Name(id="each", ctx=ast.Load()), args=[me.resolve(it, stmt, depth + 1)] + ([ast.Constant(idx)] if idx is not None else []), keywords=[])
                else:
                    return n
                if sum(1 for _ in ast.walk(val)) > me.max_nodes:
                    val = ast.Name(id=n.id, ctx=ast.Load())  # too large to inline: keep the name
                me._memo[key] = val
                val = _clone(val)
                if augs:
                    val = ast.Call(func=ast.Name(id="modified", ctx=ast.Load()), args=[val], keywords=[])
                return val

        return T().visit(_clone(expr))

    def text(self, expr: ast.AST, at: Optional[ast.AST] = None) -> str:
        return ast.unparse(ast.fix_missing_locations(self.resolve(expr, at)))


def call_args(call: ast.Call, fn: ast.FunctionDef, skip_self: bool = False) -> Dict[str, ast.AST]:
    """Bind a call's arguments to the parameter names of `fn`."""
    a = fn.args
    names = [x.arg for x in a.posonlyargs + a.args]
    if skip_self and names and names[0] in ("self", "cls"):
        names = names[1:]
    out: Dict[str, ast.AST] = {}
    for n, v in zip(names, call.args):
        out[n] = v
    for k in call.keywords:
        if k.arg is not None:
            out[k.arg] = k.value
    defaults = dict(zip(names[len(names) - len(a.defaults):], a.defaults))
    for n, d in defaults.items():
        out.setdefault(n, d)
    return out


def return_tuples(fn: ast.FunctionDef) -> List[List[ast.AST]]:
    out = []
    for n in walk_ordered(fn):
        if isinstance(n, ast.Return) and n.value is not None:
            if isinstance(n.value, ast.Tuple):
                out.append(list(n.value.elts))
            else:
                out.append([n.value])
    return out


def unpack_of_param(fn: ast.FunctionDef, param: str) -> Optional[List[str]]:
    """`(a, b, c) = args` → ['a','b','c'] (the worker idiom)."""
    for n in walk_ordered(fn):
        if isinstance(n, ast.Assign) and isinstance(n.value, ast.Name) and n.value.id == param \
                and isinstance(n.targets[0], (ast.Tuple, ast.List)):
            return [e.id if isinstance(e, ast.Name) else norm(e) for e in n.targets[0].elts]
    return None


# ---------------------------------------------------------------------------
# mutation summaries
# ---------------------------------------------------------------------------

DATASET_MUTATORS = {"set_mask", "subtract_impedances", "low_pass", "high_pass", "set_label", "set_path"}
CIRCUIT_MUTATORS = {"set_values", "set_lower_limits", "set_upper_limits", "set_fixed", "set_label", "reset_parameters", "reset_parameter",
                    "set_subcircuits", "append", "extend", "insert", "remove", "pop", "clear", "set_default_values"}
TAINT_THROUGH_METHODS = {"get_elements", "get_connections", "_get_elements_recursive", "get_subcircuits", "get_subcircuit", "values", "items", "keys",
                         "generate_element_identifiers", "__iter__", "__copy__"}
TAINT_THROUGH_FUNCS = {"generate_fit_identifiers", "iter", "list", "tuple", "reversed", "sorted", "enumerate", "zip", "filter", "dict"}
UNTAINT_FUNCS = {"deepcopy", "parse_cdc", "len", "str", "float", "int", "isinstance", "type", "simulate_spectrum"}


class MutationSummaries:
    """mutates[q] = set of parameter names whose object (or objects reachable
    from it: its elements, connections, identifiers) function q may mutate."""

    def __init__(self, model: Model, scope_prefixes=("pyimpspec.analysis", "pyimpspec.circuit", "pyimpspec.data")):
        self.model = model
        self.funcs = {q: fi for q, fi in model.funcs.items() if fi.module.startswith(scope_prefixes)}
        self.mutates: Dict[str, Set[str]] = {q: set() for q in self.funcs}
        self.why: Dict[Tuple[str, str], Tuple[ast.AST, str]] = {}
        changed = True
        rounds = 0
        while changed and rounds < 8:
            rounds += 1
            changed = False
            for q, fi in self.funcs.items():
                new = self._analyse(fi)
                if not new <= self.mutates[q]:
                    self.mutates[q] |= new
                    changed = True

    def _params(self, fi: FuncInfo) -> List[str]:
        a = fi.node.args
        return [x.arg for x in a.posonlyargs + a.args + a.kwonlyargs if x.arg not in ("self", "cls")]

    def taint(self, fi: FuncInfo, sources: Dict[str, str]) -> Dict[str, Set[str]]:
        """name -> set of source params it may alias / be part of."""
        t: Dict[str, Set[str]] = {n: {s} for n, s in sources.items()}

        def expr_sources(e: ast.AST) -> Set[str]:
            if isinstance(e, ast.Name):
                return set(t.get(e.id, set()))
            if isinstance(e, ast.Attribute):
                return expr_sources(e.value)
            if isinstance(e, ast.Subscript):
                return expr_sources(e.value)
            if isinstance(e, ast.Starred):
                return expr_sources(e.value)
            if isinstance(e, (ast.Tuple, ast.List, ast.Set)):
                out: Set[str] = set()
                for x in e.elts:
                    out |= expr_sources(x)
                return out
            if isinstance(e, ast.Dict):
                out = set()
                for x in list(e.keys) + list(e.values):
                    if x is not None:
                        out |= expr_sources(x)
                return out
            if isinstance(e, ast.IfExp):
                return expr_sources(e.body) | expr_sources(e.orelse)
            if isinstance(e, ast.BoolOp):
                out = set()
                for v in e.values:
                    out |= expr_sources(v)
                return out
            if isinstance(e, (ast.ListComp, ast.GeneratorExp, ast.SetComp)):
                return expr_sources(e.elt)  # evaluated after comprehension targets were tainted
            if isinstance(e, ast.DictComp):
                return expr_sources(e.key) | expr_sources(e.value)
            if isinstance(e, ast.Call):
                f = e.func
                if isinstance(f, ast.Attribute):
                    if f.attr in TAINT_THROUGH_METHODS:
                        return expr_sources(f.value)
                    if f.attr in ("copy",):
                        return expr_sources(f.value)  # shallow copies still contain the same elements
                    return set()
                if isinstance(f, ast.Name):
                    if f.id in UNTAINT_FUNCS:
                        return set()
                    if f.id in TAINT_THROUGH_FUNCS or f.id in ("dict",):
                        out = set()
                        for a in e.args:
                            out |= expr_sources(a)
                        for k in e.keywords:
                            out |= expr_sources(k.value)
                        return out
                return set()
            return set()

        for _ in range(3):
            for n in walk_ordered(fi.node):
                if isinstance(n, (ast.Assign, ast.AnnAssign)) and n.value is not None:
                    src = expr_sources(n.value)
                    targets = n.targets if isinstance(n, ast.Assign) else [n.target]
                    for tg in targets:
                        names = [tg] if isinstance(tg, ast.Name) else ([x for x in tg.elts if isinstance(x, ast.Name)] if isinstance(tg, (ast.Tuple, ast.List)) else [])
                        if isinstance(tg, (ast.Tuple, ast.List)) and isinstance(n.value, (ast.Tuple, ast.List)) and len(tg.elts) == len(n.value.elts):
                            for a, b in zip(tg.elts, n.value.elts):
                                if isinstance(a, ast.Name):
                                    s2 = expr_sources(b)
                                    if s2:
                                        t.setdefault(a.id, set()).update(s2)
                            continue
                        for nm in names:
                            if src:
                                t.setdefault(nm.id, set()).update(src)
                elif isinstance(n, (ast.For, ast.comprehension)):
                    src = expr_sources(n.iter)
                    if src:
                        for x in ast.walk(n.target):
                            if isinstance(x, ast.Name):
                                t.setdefault(x.id, set()).update(src)
        self._expr_sources = expr_sources
        return t

    def _analyse(self, fi: FuncInfo) -> Set[str]:
        params = self._params(fi)
        sources = {p: p for p in params}
        # worker idiom: (a, b, c) = args → a, b, c are parts of args, addressed as args#i
        unp = None
        if len(params) == 1:
            unp = unpack_of_param(fi.node, params[0])
        t = self.taint(fi, sources)
        if unp:
            for i, nm in enumerate(unp):
                t.setdefault(nm, set()).add(f"{params[0]}#{i}")
            # re-run propagation with the positional sources
            src2 = dict(sources)
            for i, nm in enumerate(unp):
                src2[nm] = f"{params[0]}#{i}"
            t = self.taint(fi, src2)
        expr_sources = self._expr_sources
        out: Set[str] = set()

        def hit(srcs: Set[str], node: ast.AST, how: str):
            for s in srcs:
                out.add(s)
                self.why.setdefault((fi.qname, s), (node, how))

        for n in walk_ordered(fi.node):
            if isinstance(n, ast.Call):
                f = n.func
                if isinstance(f, ast.Attribute) and f.attr in (DATASET_MUTATORS | CIRCUIT_MUTATORS):
                    srcs = expr_sources(f.value)
                    if srcs and not (f.attr in ("append", "extend", "insert", "remove", "pop", "clear") and not self._is_connection_typed(fi, f.value)):
                        hit(srcs, n, f".{f.attr}(…) on {norm(f.value)}")
                callee = self.model.resolve_call(fi, n)
                if callee in self.mutates and self.mutates[callee]:
                    cf = self.funcs[callee]
                    bound = call_args(n, cf.node, skip_self=cf.cls is not None)
                    for p in self.mutates[callee]:
                        base = p.split("#")[0]
                        if base in bound:
                            srcs = expr_sources(bound[base])
                            if srcs:
                                hit(srcs, n, f"passed to {callee.split(':')[1]}, which mutates its `{p}`")
                # map/imap(worker, args)
                if (isinstance(f, ast.Name) and f.id == "map") or (isinstance(f, ast.Attribute) and f.attr in ("imap", "imap_unordered", "map")):
                    if len(n.args) >= 2 and isinstance(n.args[0], ast.Name):
                        r = self.model.resolve(fi.module, n.args[0].id)
                        if r and r[0] == "func" and r[1] in self.mutates:
                            wq = r[1]
                            tup = self._arg_tuple(fi, n.args[1])
                            for p in self.mutates[wq]:
                                if "#" in p and tup is not None:
                                    i = int(p.split("#")[1])
                                    if i < len(tup):
                                        srcs = expr_sources(tup[i])
                                        if srcs:
                                            hit(srcs, n, f"position {i} of the worker tuple is mutated by {wq.split(':')[1]}")
                                elif "#" not in p:
                                    srcs = expr_sources(n.args[1])
                                    if srcs:
                                        hit(srcs, n, f"passed to worker {wq.split(':')[1]}, which mutates its argument")
            elif isinstance(n, (ast.Assign, ast.AugAssign)):
                targets = n.targets if isinstance(n, ast.Assign) else [n.target]
                for tg in targets:
                    if isinstance(tg, ast.Attribute) and tg.attr.startswith("_"):
                        srcs = expr_sources(tg.value)
                        if srcs and dotted(tg.value) not in ("self",):
                            hit(srcs, n, f"stores into {norm(tg)}")
        return {s for s in out}

    def _is_connection_typed(self, fi: FuncInfo, recv: ast.AST) -> bool:
        """List operations mutate a circuit only when applied to a Connection/Circuit object itself
        (not to a Python list that merely holds its elements)."""
        kinds = ("Connection", "Series", "Parallel", "Circuit", "Container")
        if isinstance(recv, ast.Name):
            a = fi.node.args
            for x in a.posonlyargs + a.args + a.kwonlyargs:
                if x.arg == recv.id and x.annotation is not None:
                    return norm(x.annotation).strip("'\"") in kinds or norm(x.annotation).startswith("Optional[") and any(k in norm(x.annotation) for k in kinds)
            for n in walk_ordered(fi.node):
                if isinstance(n, ast.AnnAssign) and isinstance(n.target, ast.Name) and n.target.id == recv.id:
                    return norm(n.annotation).strip("'\"") in kinds
                if isinstance(n, ast.Assign) and isinstance(n.targets[0], ast.Name) and n.targets[0].id == recv.id \
                        and isinstance(n.value, ast.Call) and isinstance(n.value.func, ast.Name) and n.value.func.id in kinds:
                    return True
            return False
        if isinstance(recv, ast.Attribute) and recv.attr == "_elements":
            return True
        return False

    def _is_local_container(self, fi: FuncInfo, recv: ast.AST) -> bool:
        """list.append on a local list that merely *contains* tainted items is not a mutation of them."""
        if isinstance(recv, ast.Name):
            for n in walk_ordered(fi.node):
                if isinstance(n, (ast.Assign, ast.AnnAssign)) and n.value is not None:
                    tg = n.targets[0] if isinstance(n, ast.Assign) else n.target
                    if isinstance(tg, ast.Name) and tg.id == recv.id and isinstance(n.value, (ast.List, ast.Dict, ast.ListComp, ast.Call)):
                        if isinstance(n.value, ast.Call) and not (isinstance(n.value.func, ast.Name) and n.value.func.id in ("list", "dict", "sorted")):
                            continue
                        return True
        return False

    def _arg_tuple(self, fi: FuncInfo, node: ast.AST) -> Optional[List[ast.AST]]:
        if isinstance(node, ast.Name):
            binds = [b for b in assignments(fi.node, node.id) if b[2] == "assign"]
            if len(binds) >= 1:
                node = binds[-1][0].value
        if isinstance(node, (ast.GeneratorExp, ast.ListComp)) and isinstance(node.elt, ast.Tuple):
            return list(node.elt.elts)
        if isinstance(node, ast.List) and node.elts and isinstance(node.elts[0], ast.Tuple):
            return list(node.elts[0].elts)
        return None


# ---------------------------------------------------------------------------------------------------
# abstraction of a dictionary-valued argument (`**E`): which dictionary its keys come from, what its values are,
# and which entries are filtered out — through local names, comprehensions, dict.fromkeys, dict(), .copy(), {**d}
def dict_arg(expr: ast.AST, fn: Optional[ast.AST], depth: int = 0):
    """→ (source text, value kind, filters) with value kind in {'same', '-inf', 'inf', 'const:<text>', 'other:<text>'} and
    filters a list of normalised conditions on the entry value written with the canonical variable `v` (key `k`).
    Returns None when the expression is not understood."""
    INF = ("inf", "numpy.inf", "float('inf')", "math.inf")

    def const_kind(v: ast.AST) -> Optional[str]:
        if isinstance(v, ast.UnaryOp) and isinstance(v.op, ast.USub) and norm(v.operand) in INF:
            return "-inf"
        if norm(v) in INF:
            return "inf"
        if isinstance(v, ast.Constant):
            return f"const:{norm(v)}"
        return None

    def compose(inner, val, filt):
        if inner is None:
            return None
        src, ival, ifilt = inner
        if val == "same":
            val = ival
        return (src, val, ifilt + filt)

    if depth > 5:
        return None
    if isinstance(expr, ast.Name):
        binds = []
        if fn is not None:
            for n in walk_ordered(fn):
                if isinstance(n, (ast.Assign, ast.AnnAssign)) and n.value is not None:
                    t = n.targets[0] if isinstance(n, ast.Assign) else n.target
                    if isinstance(t, ast.Name) and t.id == expr.id:
                        binds.append(n.value)
        if len(binds) == 1:
            r = dict_arg(binds[0], fn, depth + 1) if not (isinstance(binds[0], ast.Name) and binds[0].id == expr.id) else None
            if r is not None:
                return r
            return (norm(binds[0]), "same", [])  # an opaque producer (e.g. self.get_default_lower_limits(*keys)): its text is the source
        if len(binds) > 1:
            return None
        return (expr.id, "same", [])
    if isinstance(expr, ast.DictComp) and len(expr.generators) == 1:
        g = expr.generators[0]
        it = g.iter
        if isinstance(it, ast.Call) and isinstance(it.func, ast.Attribute) and it.func.attr == "items" and isinstance(g.target, ast.Tuple) and len(g.target.elts) == 2:
            kn, vn = norm(g.target.elts[0]), norm(g.target.elts[1])
            if norm(expr.key) != kn:
                return None
            ck = const_kind(expr.value)
            val = "same" if norm(expr.value) == vn else (ck or f"other:{norm(expr.value)}")
            import re as _re
            filt = [_re.sub(rf"\b{_re.escape(vn)}\b", "v", _re.sub(rf"\b{_re.escape(kn)}\b", "k", norm(c))) for c in g.ifs]
            return compose(dict_arg(it.func.value, fn, depth + 1), val, filt)
        # keys only: {k: CONST for k in S} / S.keys()
        src = it.func.value if isinstance(it, ast.Call) and isinstance(it.func, ast.Attribute) and it.func.attr == "keys" else it
        if isinstance(g.target, ast.Name) and norm(expr.key) == g.target.id and not g.ifs:
            ck = const_kind(expr.value)
            if ck:
                return compose(dict_arg(src, fn, depth + 1), ck, [])
        return None
    if isinstance(expr, ast.Call):
        f = norm(expr.func)
        if f == "dict.fromkeys" and len(expr.args) == 2:
            ck = const_kind(expr.args[1])
            if ck:
                return compose(dict_arg(expr.args[0], fn, depth + 1), ck, [])
            return None
        if f == "dict" and len(expr.args) == 1 and not expr.keywords:
            return dict_arg(expr.args[0], fn, depth + 1)
        if isinstance(expr.func, ast.Attribute) and expr.func.attr == "copy" and not expr.args:
            return dict_arg(expr.func.value, fn, depth + 1)
        return (norm(expr), "same", [])
    if isinstance(expr, ast.Dict) and len(expr.keys) == 1 and expr.keys[0] is None:
        return dict_arg(expr.values[0], fn, depth + 1)
    if isinstance(expr, (ast.Attribute, ast.Subscript)):
        return (norm(expr), "same", [])  # an attribute / entry holding the dictionary: its text is the source
    return None


def inline_call(model, fi, call: ast.Call, depth: int = 2) -> Optional[ast.AST]:
    """If `call` resolves to a repository function whose every path ends in one `return <expr>` (a pure helper), return
    <expr> with the helper's locals expanded (Resolver) and its parameters replaced by the call's argument expressions;
    else None.  Used so that provenance rules see through helpers extracted from the function under analysis."""
    q = model.resolve_call(fi, call)
    if not q or q not in model.funcs:
        return None
    h = model.funcs[q]
    rets = [n for n in walk_ordered(h.node) if isinstance(n, ast.Return) and n.value is not None]
    if len(rets) != 1:
        return None
    R = Resolver(h.node)
    expr = R.resolve(rets[0].value, rets[0])
    try:
        bound = call_args(call, h.node, skip_self=isinstance(call.func, ast.Attribute))
    except Exception:
        return None
    mapping = {k: v for k, v in bound.items() if v is not None}

    class T(ast.NodeTransformer):
        def visit_Name(self, n):
            if n.id in mapping and isinstance(n.ctx, ast.Load):
                return ast.parse(f"({norm(mapping[n.id])})", mode="eval").body
            return n

        def visit_comprehension(self, n):
            return self.generic_visit(n)
    try:
        out = T().visit(ast.parse(norm(expr), mode="eval").body)
    except SyntaxError:
        return None
    ast.fix_missing_locations(out)
    for p_ in ast.walk(out):
        for c_ in ast.iter_child_nodes(p_):
            c_._parent = p_  # type: ignore[attr-defined]
    return out


def _procedure_body(h: ast.FunctionDef, call: ast.Call) -> Optional[List[ast.stmt]]:
    """Body of the helper procedure `h` with its parameters replaced by the call's arguments, or None when h is not a
    plain procedure (returns a value, binds local names, has *args/**kwargs, or an argument is not a simple expression)."""
    if h.args.vararg or h.args.kwarg or any(isinstance(n, ast.Return) and n.value is not None for n in ast.walk(h)):
        return None
    if any(isinstance(n, (ast.Yield, ast.YieldFrom, ast.FunctionDef, ast.Lambda, ast.Global, ast.Nonlocal)) and n is not h for n in ast.walk(h)):
        return None
    try:
        bound = call_args(call, h)
    except Exception:
        return None
    params = {a.arg for a in h.args.posonlyargs + h.args.args + h.args.kwonlyargs}
    if any(v is None for k, v in bound.items() if k in params) or set(bound) != params:
        return None
    if not all(isinstance(v, (ast.Name, ast.Attribute, ast.Constant, ast.Subscript)) for v in bound.values()):
        return None
    aug_targets = {id(n.target) for n in ast.walk(h) if isinstance(n, ast.AugAssign) and isinstance(n.target, ast.Name) and n.target.id in params}
    for n in ast.walk(h):
        if isinstance(n, ast.Name) and isinstance(n.ctx, ast.Store) and id(n) not in aug_targets:
            return None  # binds a name (a local, a loop variable, or re-binds a parameter): not a plain procedure
    # (an augmented assignment to a parameter is an in-place update of the caller's array in this code base)
    body = [st for st in h.body if not (isinstance(st, ast.Expr) and isinstance(st.value, ast.Constant))]
    out = []
    for st in body:
        class S(ast.NodeTransformer):
            def visit_Name(self, n):
                if n.id in bound:
                    return ast.parse(f"({norm(bound[n.id])})", mode="eval").body
                return n
        try:
            new = S().visit(ast.parse(ast.unparse(st)).body[0])
            out.append(ast.parse(ast.unparse(ast.fix_missing_locations(new))).body[0])
        except SyntaxError:
            return None
    return out


def inlined_function(model, fi, depth: int = 3, same_module_private_only: bool = True) -> ast.FunctionDef:
    """A clone of fi's FunctionDef in which calls to pure-return helpers (same module, private name, one `return <expr>`)
    are replaced by the helper's expression (locals expanded, parameters substituted), recursively up to `depth`.
    Provenance rules run on the clone so that extracting a helper from a function does not hide what it computes."""
    src = ast.unparse(ast.fix_missing_locations(fi.node))
    clone = ast.parse(src).body[0]

    def link(root):
        for p_ in ast.walk(root):
            for c_ in ast.iter_child_nodes(p_):
                c_._parent = p_  # type: ignore[attr-defined]
    link(clone)
    for _ in range(depth):
        changed = False

        class T(ast.NodeTransformer):
            def visit_Call(self, n):
                nonlocal changed
                n = self.generic_visit(n)
                if isinstance(n.func, ast.Name) and (n.func.id.startswith("_") or not same_module_private_only):
                    q = model.resolve_call(fi, n)
                    if q and q in model.funcs and (model.funcs[q].module == fi.module or not same_module_private_only) and q != fi.qname:
                        e = inline_call(model, fi, n, 1)
                        if e is not None:
                            changed = True
                            return e
                return n
        clone = T().visit(clone)
        ast.fix_missing_locations(clone)

        # helper *procedures* (no returned value, straight-line or branching body without local name bindings other than
        # stores into their parameters): the call statement is replaced by the body with the arguments substituted
        class P(ast.NodeTransformer):
            def _splice(self, stmts):
                nonlocal changed
                out = []
                for st in stmts:
                    st = self.generic_visit(st)
                    body = None
                    if isinstance(st, ast.Expr) and isinstance(st.value, ast.Call) and isinstance(st.value.func, ast.Name) \
                            and (st.value.func.id.startswith("_") or not same_module_private_only):
                        q = model.resolve_call(fi, st.value)
                        if q and q in model.funcs and (model.funcs[q].module == fi.module or not same_module_private_only) and q != fi.qname:
                            body = _procedure_body(model.funcs[q].node, st.value)
                    if body is None:
                        out.append(st)
                    else:
                        changed = True
                        out.extend(body)
                return out

            def generic_visit(self, node):
                for field in ("body", "orelse", "finalbody"):
                    v = getattr(node, field, None)
                    if isinstance(v, list) and v and isinstance(v[0], ast.stmt):
                        setattr(node, field, self._splice(v))
                return node
        clone = P().generic_visit(clone)
        ast.fix_missing_locations(clone)
        clone = ast.parse(ast.unparse(clone)).body[0]
        link(clone)
        if not changed:
            break
    clone._parent = None  # type: ignore[attr-defined]
    return clone


def worker_tuples(fn: ast.AST, name: str = "args") -> List[ast.Tuple]:
    """The tuples a function packs for its workers, whichever way the list `name` is built: name.append((…)) in loops,
    name = [(…) for …], name = [(…), (…)], name += [(…)]."""
    out: List[ast.Tuple] = []
    for n in walk_ordered(fn):
        if isinstance(n, ast.Call) and isinstance(n.func, ast.Attribute) and n.func.attr == "append" and norm(n.func.value) == name \
                and n.args and isinstance(n.args[0], ast.Tuple):
            out.append(n.args[0])
        elif isinstance(n, (ast.Assign, ast.AnnAssign, ast.AugAssign)) and getattr(n, "value", None) is not None:
            t = n.targets[0] if isinstance(n, ast.Assign) else n.target
            if norm(t) != name:
                continue
            v = n.value
            if isinstance(v, (ast.ListComp, ast.GeneratorExp)) and isinstance(v.elt, ast.Tuple):
                out.append(v.elt)
            elif isinstance(v, ast.List):
                out += [e for e in v.elts if isinstance(e, ast.Tuple)]
    return out


def inline_projections(model, fi, expr: ast.AST, depth: int = 3) -> ast.AST:
    """proj(<call of a pure-return helper returning a tuple>, i) → the i-th component, with the helper's locals expanded and
    its parameters replaced by the call's arguments (so that values computed inside an extracted helper keep their
    provenance)."""
    for _ in range(depth):
        changed = False

        class T(ast.NodeTransformer):
            def visit_Call(self, n):
                nonlocal changed
                n = self.generic_visit(n)
                if isinstance(n.func, ast.Name) and n.func.id == "proj" and len(n.args) == 2 and isinstance(n.args[0], ast.Call) and isinstance(n.args[1], ast.Constant):
                    inner = inline_call(model, fi, n.args[0])
                    if isinstance(inner, ast.Tuple) and isinstance(n.args[1].value, int) and n.args[1].value < len(inner.elts):
                        changed = True
                        return inner.elts[n.args[1].value]
                return n
        expr = T().visit(ast.parse(ast.unparse(ast.fix_missing_locations(expr)), mode="eval").body)
        ast.fix_missing_locations(expr)
        if not changed:
            break
    return expr
