"""Engine A — resolved program model: imports, classes with MRO, functions,
module constants, call graph with resolved callees."""
from __future__ import annotations

import ast
from dataclasses import dataclass, field
from typing import Any, Dict, Iterable, List, Optional, Set, Tuple

from .core import PKG, AnalysisError, ModuleInfo, Repo, dotted, walk_ordered


@dataclass
class FuncInfo:
    qname: str  # module:Qual.name
    module: str
    qual: str
    node: ast.FunctionDef
    cls: Optional[str] = None  # qualified class name 'module:Class'


@dataclass
class ClassInfo:
    qname: str  # module:Class
    module: str
    name: str
    node: ast.ClassDef
    bases: List[str] = field(default_factory=list)  # resolved qnames (or 'ext:<dotted>')
    methods: Dict[str, FuncInfo] = field(default_factory=dict)
    attrs: Dict[str, ast.AST] = field(default_factory=dict)  # class-level assignments


class Model:
    def __init__(self, repo: Repo):
        self.repo = repo
        self.imports: Dict[str, Dict[str, Tuple[str, Optional[str]]]] = {}
        self.classes: Dict[str, ClassInfo] = {}
        self.funcs: Dict[str, FuncInfo] = {}
        self.consts: Dict[str, Dict[str, ast.AST]] = {}
        self.toplevel: Dict[str, Dict[str, str]] = {}  # module -> name -> kind
        for name, mod in repo.modules.items():
            self._index_module(mod)
        for ci in self.classes.values():
            ci.bases = [self._resolve_base(ci.module, b) for b in ci.node.bases]
        self._mro_cache: Dict[str, List[str]] = {}
        self._callgraph: Optional[Dict[str, Set[str]]] = None
        self._unresolved: Dict[str, List[str]] = {}

    # -- indexing -----------------------------------------------------------
    def _index_module(self, mod: ModuleInfo) -> None:
        imp: Dict[str, Tuple[str, Optional[str]]] = {}
        top: Dict[str, str] = {}
        consts: Dict[str, ast.AST] = {}
        pkg_parts = mod.name.split(".") if mod.is_pkg else mod.name.split(".")[:-1]
        for node in walk_ordered(mod.tree, into_functions=True):
            if isinstance(node, ast.ImportFrom):
                if node.level:
                    base = pkg_parts[: len(pkg_parts) - (node.level - 1)]
                    target = ".".join(base + (node.module.split(".") if node.module else []))
                else:
                    target = node.module or ""
                for a in node.names:
                    # only module-level imports define module names; function-level
                    # imports are recorded too (same table; the repo does not shadow)
                    imp.setdefault(a.asname or a.name, (target, a.name))
            elif isinstance(node, ast.Import):
                for a in node.names:
                    imp.setdefault(a.asname or a.name.split(".")[0], (a.name if a.asname else a.name.split(".")[0], None))
        for node in mod.tree.body:
            if isinstance(node, (ast.FunctionDef, ast.AsyncFunctionDef)):
                top[node.name] = "func"
                self._add_func(mod.name, node.name, node, None)
            elif isinstance(node, ast.ClassDef):
                top[node.name] = "class"
                q = f"{mod.name}:{node.name}"
                ci = ClassInfo(q, mod.name, node.name, node)
                self.classes[q] = ci
                for sub in node.body:
                    if isinstance(sub, (ast.FunctionDef, ast.AsyncFunctionDef)):
                        fi = self._add_func(mod.name, f"{node.name}.{sub.name}", sub, q)
                        ci.methods[sub.name] = fi
                    elif isinstance(sub, ast.Assign):
                        for t in sub.targets:
                            if isinstance(t, ast.Name):
                                ci.attrs[t.id] = sub.value
                    elif isinstance(sub, ast.AnnAssign) and isinstance(sub.target, ast.Name) and sub.value is not None:
                        ci.attrs[sub.target.id] = sub.value
            elif isinstance(node, ast.Assign):
                for t in node.targets:
                    if isinstance(t, ast.Name):
                        top[t.id] = "const"
                        consts[t.id] = node.value
            elif isinstance(node, ast.AnnAssign) and isinstance(node.target, ast.Name) and node.value is not None:
                top[node.target.id] = "const"
                consts[node.target.id] = node.value
        self.imports[mod.name] = imp
        self.toplevel[mod.name] = top
        self.consts[mod.name] = consts

    def _add_func(self, module: str, qual: str, node, cls) -> FuncInfo:
        fi = FuncInfo(f"{module}:{qual}", module, qual, node, cls)
        self.funcs[fi.qname] = fi
        for sub in node.body:
            self._index_nested(module, qual, sub, cls)
        return fi

    def _index_nested(self, module, qual, stmt, cls):
        for n in walk_ordered(stmt):
            if isinstance(n, (ast.FunctionDef, ast.AsyncFunctionDef)):
                self._add_func(module, f"{qual}.{n.name}", n, cls)

    # -- name resolution ------------------------------------------------------
    def resolve(self, module: str, name: str, _depth: int = 0) -> Optional[Tuple[str, str]]:
        """Resolve a bare name in `module` to (kind, qname); kind in
        func/class/const/module/ext."""
        if _depth > 8:
            return None
        top = self.toplevel.get(module, {})
        if name in top:
            return top[name], f"{module}:{name}"
        imp = self.imports.get(module, {})
        if name in imp:
            target, attr = imp[name]
            if attr is None:
                if target in self.repo.modules:
                    return "module", target
                return "ext", target
            if target in self.repo.modules:
                sub = f"{target}.{attr}"
                if sub in self.repo.modules and attr not in self.toplevel.get(target, {}) and attr not in self.imports.get(target, {}):
                    return "module", sub
                r = self.resolve(target, attr, _depth + 1)
                if r is not None:
                    return r
                if sub in self.repo.modules:
                    return "module", sub
                return None
            return "ext", f"{target}.{attr}"
        return None

    def _resolve_base(self, module: str, node: ast.AST) -> str:
        d = dotted(node)
        if isinstance(node, ast.Name):
            r = self.resolve(module, node.id)
            if r and r[0] == "class":
                return r[1]
            if r and r[0] == "ext":
                return "ext:" + r[1]
        return "ext:" + d

    def mro(self, cq: str) -> List[str]:
        if cq in self._mro_cache:
            return self._mro_cache[cq]
        out: List[str] = [cq]
        ci = self.classes.get(cq)
        if ci is not None:
            for b in ci.bases:
                for x in self.mro(b) if b in self.classes else [b]:
                    if x not in out:
                        out.append(x)
        self._mro_cache[cq] = out
        return out

    def is_subclass(self, cq: str, base_q: str) -> bool:
        return base_q in self.mro(cq)

    def subclasses(self, base_q: str) -> List[str]:
        return [c for c in self.classes if c != base_q and self.is_subclass(c, base_q)]

    def find_method(self, cq: str, name: str) -> Optional[FuncInfo]:
        for c in self.mro(cq):
            ci = self.classes.get(c)
            if ci and name in ci.methods:
                return ci.methods[name]
        return None

    def class_by_name(self, name: str) -> Optional[str]:
        hits = [q for q, c in self.classes.items() if c.name == name]
        return hits[0] if len(hits) == 1 else None

    # -- call resolution ----------------------------------------------------
    def resolve_call(self, fi: FuncInfo, call: ast.Call) -> Optional[str]:
        """Return qname of callee function (constructor -> Class.__init__ if
        defined, else 'class:<qname>'), or None."""
        f = call.func
        if isinstance(f, ast.Name):
            # nested function defined in an enclosing function?
            parts = fi.qual.split(".")
            for i in range(len(parts), 0, -1):
                q = f"{fi.module}:{'.'.join(parts[:i])}.{f.id}"
                if q in self.funcs:
                    return q
            r = self.resolve(fi.module, f.id)
            if r is None:
                return None
            if r[0] == "func":
                return r[1]
            if r[0] == "class":
                init = self.find_method(r[1], "__init__")
                return init.qname if init else "class:" + r[1]
            return None
        if isinstance(f, ast.Attribute):
            v = f.value
            if isinstance(v, ast.Name) and v.id in ("self", "cls") and fi.cls:
                m = self.find_method(fi.cls, f.attr)
                return m.qname if m else None
            if isinstance(v, ast.Call) and isinstance(v.func, ast.Name) and v.func.id == "super" and fi.cls:
                for c in self.mro(fi.cls)[1:]:
                    ci = self.classes.get(c)
                    if ci and f.attr in ci.methods:
                        return ci.methods[f.attr].qname
                return None
            if isinstance(v, ast.Name):
                r = self.resolve(fi.module, v.id)
                if r and r[0] == "class":
                    m = self.find_method(r[1], f.attr)
                    return m.qname if m else None
                if r and r[0] == "module":
                    r2 = self.resolve(r[1], f.attr)
                    if r2 and r2[0] == "func":
                        return r2[1]
                    if r2 and r2[0] == "class":
                        init = self.find_method(r2[1], "__init__")
                        return init.qname if init else "class:" + r2[1]
            return None
        return None

    def func_values(self, fi: FuncInfo) -> List[str]:
        """Functions referenced as values (passed to map/imap/minimize/partial…)."""
        out = []
        for call in [n for n in walk_ordered(fi.node) if isinstance(n, ast.Call)]:
            for a in list(call.args) + [k.value for k in call.keywords]:
                if isinstance(a, ast.Name):
                    r = self.resolve(fi.module, a.id)
                    if r and r[0] == "func":
                        out.append(r[1])
                elif isinstance(a, ast.Attribute) and isinstance(a.value, ast.Name) and a.value.id == "self" and fi.cls:
                    m = self.find_method(fi.cls, a.attr)
                    if m:
                        out.append(m.qname)
        return out

    def callgraph(self) -> Dict[str, Set[str]]:
        if self._callgraph is not None:
            return self._callgraph
        g: Dict[str, Set[str]] = {}
        for q, fi in self.funcs.items():
            out: Set[str] = set()
            unres: List[str] = []
            for n in walk_ordered(fi.node):
                if isinstance(n, ast.Call):
                    c = self.resolve_call(fi, n)
                    if c is not None:
                        out.add(c)
                    else:
                        unres.append(dotted(n.func))
                elif isinstance(n, (ast.FunctionDef, ast.Lambda)) and n is not fi.node:
                    pass
            # lambdas: calls inside lambdas belong to the enclosing function
            for n in walk_ordered(fi.node):
                if isinstance(n, ast.Lambda):
                    for c2 in walk_ordered(n.body):
                        if isinstance(c2, ast.Call):
                            c = self.resolve_call(fi, c2)
                            if c is not None:
                                out.add(c)
            out.update(self.func_values(fi))
            g[q] = out
            self._unresolved[q] = unres
        self._callgraph = g
        return g

    def reachable(self, roots: Iterable[str], prune: Optional[Set[str]] = None) -> Set[str]:
        g = self.callgraph()
        seen: Set[str] = set()
        stack = list(roots)
        while stack:
            q = stack.pop()
            if q in seen or (prune and q in prune):
                continue
            seen.add(q)
            for c in g.get(q, ()):  # class: pseudo nodes have no edges
                if c not in seen:
                    stack.append(c)
        return seen

    def fi(self, module: str, qual: str) -> FuncInfo:
        if not module.startswith(PKG):
            module = f"{PKG}.{module}"
        q = f"{module}:{qual}"
        if q not in self.funcs:
            raise AnalysisError(f"anchor function {q} not found")
        return self.funcs[q]

    def const(self, module: str, name: str) -> ast.AST:
        if not module.startswith(PKG):
            module = f"{PKG}.{module}"
        c = self.consts.get(module, {})
        if name not in c:
            raise AnalysisError(f"anchor constant {module}:{name} not found")
        return c[name]


_MODEL_CACHE: Dict[int, Model] = {}


def get_model(repo: Repo) -> Model:
    k = id(repo)
    if k not in _MODEL_CACHE:
        _MODEL_CACHE[k] = Model(repo)
    return _MODEL_CACHE[k]
