"""Abstract interpretation of string-building code (the CDC emitters).

Abstract value of a string expression: a set of alternatives, each a tuple of
pieces
    ("lit", text)          literal characters
    ("num", source, fmt)   a number formatted with the printf-style format fmt; `source` is the expanded
                           text of the expression that was formatted
    ("str", source)        some other string (a symbol, a label, a nested emitter's output)
Branches are joined (union of alternatives), `+`/`+=`/f-strings concatenate, `fmt % x` formats, local helper
functions are inlined through their return statements.  Anything else becomes an opaque ("str", text) piece —
the consumers decide whether an opaque piece is acceptable where it stands."""
from __future__ import annotations

import ast
import re
from typing import Dict, List, Optional, Set, Tuple

from .core import AnalysisError, norm

Piece = Tuple
Alt = Tuple[Piece, ...]
AVal = Set[Alt]
MAX_ALTS = 256
FMT_RE = re.compile(r"%[-+ #0]*\d*(?:\.\d*)?[eEfFgGdis]")


def lit(text: str) -> AVal:
    return {(("lit", text),)} if text else {()}


def cat(a: AVal, b: AVal) -> AVal:
    out = set()
    for x in a:
        for y in b:
            out.add(_merge(x + y))
            if len(out) > MAX_ALTS:
                raise AnalysisError("strabs: too many alternatives")
    return out


def _merge(alt: Alt) -> Alt:
    res: List[Piece] = []
    for p in alt:
        if p[0] == "lit" and res and res[-1][0] == "lit":
            res[-1] = ("lit", res[-1][1] + p[1])
        elif p[0] == "lit" and p[1] == "":
            continue
        else:
            res.append(p)
    return tuple(res)


class StrAbs:
    def __init__(self, fn: ast.AST):
        self.fn = fn
        self.helpers: Dict[str, ast.FunctionDef] = {}
        self.appended: Dict[str, AVal] = {}  # list name -> abstract value of appended elements

    # source text with local single-valued names expanded
    def expand(self, e: ast.AST, src: Dict[str, str]) -> str:
        class T(ast.NodeTransformer):
            def visit_Name(self_, n):
                if n.id in src:
                    try:
                        return ast.parse(f"({src[n.id]})", mode="eval").body
                    except SyntaxError:
                        return n
                return n
        try:
            return norm(T().visit(ast.parse(norm(e), mode="eval").body))
        except SyntaxError:
            return norm(e)

    def fmt_of(self, v: AVal) -> Optional[str]:
        """The printf format if every alternative is a pure literal / literal-with-holes format string."""
        fmts = set()
        for alt in v:
            text = ""
            for p in alt:
                if p[0] == "lit":
                    text += p[1]
                elif p[0] == "str":
                    text += "0"  # a hole such as {decimals}
                else:
                    return None
            fmts.add(text)
        if len(fmts) == 1:
            f = fmts.pop()
            if FMT_RE.fullmatch(f):
                return f
        return None

    def ev(self, e: ast.AST, env: Dict[str, AVal], src: Dict[str, str]) -> AVal:
        if isinstance(e, ast.Constant):
            return lit(e.value) if isinstance(e.value, str) else {(("str", norm(e)),)}
        if isinstance(e, ast.JoinedStr):
            out: AVal = {()}
            for v in e.values:
                if isinstance(v, ast.Constant):
                    out = cat(out, lit(str(v.value)))
                else:
                    inner = v.value
                    if isinstance(inner, ast.Name) and inner.id in env:
                        out = cat(out, env[inner.id])
                    elif isinstance(inner, (ast.JoinedStr, ast.BinOp, ast.IfExp, ast.Call)) and self._stringy(inner, env):
                        out = cat(out, self.ev(inner, env, src))
                    else:
                        out = cat(out, {(("str", self.expand(inner, src)),)})
            return out
        if isinstance(e, ast.BinOp) and isinstance(e.op, ast.Add):
            return cat(self.ev(e.left, env, src), self.ev(e.right, env, src))
        if isinstance(e, ast.BinOp) and isinstance(e.op, ast.Mod):
            left = self.ev(e.left, env, src)
            texts = set()
            for alt in left:
                if any(p[0] == "num" for p in alt):
                    texts = None
                    break
                texts.add("".join(p[1] if p[0] == "lit" else "0" for p in alt))
            if texts and len(texts) == 1:
                t = texts.pop()
                ms = list(FMT_RE.finditer(t))
                if len(ms) == 1:
                    m = ms[0]
                    return cat(cat(lit(t[:m.start()]), {(("num", self.expand(e.right, src), m.group(0)),)}), lit(t[m.end():]))
            return {(("str", self.expand(e, src)),)}
        if isinstance(e, ast.IfExp):
            return self.ev(e.body, env, src) | self.ev(e.orelse, env, src)
        if isinstance(e, ast.Name):
            if e.id in env:
                return env[e.id]
            return {(("str", self.expand(e, src)),)}
        if isinstance(e, ast.Call):
            if isinstance(e.func, ast.Name) and e.func.id in self.helpers:
                h = self.helpers[e.func.id]
                params = [a.arg for a in h.args.args]
                henv = dict(env)
                hsrc = dict(src)
                for p_, a in zip(params, e.args):
                    hsrc[p_] = self.expand(a, src)
                    henv.pop(p_, None)
                    if self._stringy(a, env):
                        henv[p_] = self.ev(a, env, src)
                rets: AVal = set()
                self._block(h.body, henv, hsrc, rets)
                if rets:
                    return rets
            if isinstance(e.func, ast.Attribute) and e.func.attr == "join" and len(e.args) == 1:
                sep = self.ev(e.func.value, env, src)
                a = e.args[0]
                if isinstance(a, ast.Name) and a.id in self.appended:
                    item = self.appended[a.id]
                    # one or more items: item (sep item)*  — represented by its two shortest unrollings
                    return item | cat(cat(item, sep), item)
                if isinstance(a, (ast.Tuple, ast.List)) and a.elts and not any(isinstance(x, ast.Starred) for x in a.elts):
                    # a fixed sequence of pieces joined by the separator
                    out = self.ev(a.elts[0], env, src)
                    for x in a.elts[1:]:
                        out = cat(cat(out, sep), self.ev(x, env, src))
                    return out
                if isinstance(a, (ast.ListComp, ast.GeneratorExp)) and len(a.generators) == 1:
                    item = self._comprehension_item(a, env, src)
                    return item | cat(cat(item, sep), item)
            if isinstance(e.func, ast.Name) and e.func.id == "str" and len(e.args) == 1:
                return self.ev(e.args[0], env, src) if self._stringy(e.args[0], env) else {(("str", self.expand(e.args[0], src)),)}
            return {(("str", self.expand(e, src)),)}
        if isinstance(e, ast.FormattedValue):
            return self.ev(e.value, env, src)
        return {(("str", self.expand(e, src)),)}

    def _comprehension_item(self, comp, env, src) -> AVal:
        g = comp.generators[0]
        fe, fs = dict(env), dict(src)
        for n in ast.walk(g.target):
            if isinstance(n, ast.Name):
                fe.pop(n.id, None)
                fs[n.id] = f"<{n.id} of {self.expand(g.iter, src)}>"
        return self.ev(comp.elt, fe, fs)

    def _stringy(self, e: ast.AST, env) -> bool:
        if isinstance(e, (ast.JoinedStr, ast.IfExp)):
            return True
        if isinstance(e, ast.Constant):
            return isinstance(e.value, str)
        if isinstance(e, ast.Name):
            return e.id in env
        if isinstance(e, ast.BinOp) and isinstance(e.op, ast.Mod):
            return True
        if isinstance(e, ast.BinOp) and isinstance(e.op, ast.Add):
            return self._stringy(e.left, env) or self._stringy(e.right, env)
        if isinstance(e, ast.Call):
            return (isinstance(e.func, ast.Name) and e.func.id in self.helpers) or (isinstance(e.func, ast.Attribute) and e.func.attr == "join")
        return False

    def _block(self, stmts: List[ast.stmt], env: Dict[str, AVal], src: Dict[str, str], rets: Optional[AVal] = None) -> bool:
        """Abstractly executes stmts; returns True if the block always returns."""
        for s in stmts:
            if isinstance(s, ast.FunctionDef):
                self.helpers[s.name] = s
            elif isinstance(s, (ast.Assign, ast.AnnAssign)):
                if s.value is None:
                    continue
                t = s.targets[0] if isinstance(s, ast.Assign) else s.target
                if isinstance(t, ast.Name) and isinstance(s.value, ast.ListComp) and len(s.value.generators) == 1:
                    # a list built by a comprehension: its items are what a loop would have appended
                    self.appended[t.id] = self.appended.get(t.id, set()) | self._comprehension_item(s.value, env, src)
                    continue
                if isinstance(t, ast.Name):
                    if self._stringy(s.value, env):
                        env[t.id] = self.ev(s.value, env, src)
                        src.pop(t.id, None)
                    else:
                        env.pop(t.id, None)
                        src[t.id] = self.expand(s.value, src)
            elif isinstance(s, ast.AugAssign) and isinstance(s.op, ast.Add) and isinstance(s.target, ast.Name):
                cur = env.get(s.target.id)
                if cur is not None:
                    env[s.target.id] = cat(cur, self.ev(s.value, env, src))
            elif isinstance(s, ast.If):
                e1, s1 = dict(env), dict(src)
                e2, s2 = dict(env), dict(src)
                r1 = self._block(s.body, e1, s1, rets)
                r2 = self._block(s.orelse, e2, s2, rets)
                if r1 and r2:
                    return True
                if r1:
                    env.clear(); env.update(e2); src.clear(); src.update(s2)
                elif r2:
                    env.clear(); env.update(e1); src.clear(); src.update(s1)
                else:
                    for k in set(e1) | set(e2):
                        if k in e1 and k in e2:
                            env[k] = e1[k] | e2[k]
                            if len(env[k]) > MAX_ALTS:
                                raise AnalysisError("strabs: too many alternatives")
                        else:
                            env.pop(k, None)
                    for k in set(s1) | set(s2):
                        if s1.get(k) == s2.get(k):
                            src[k] = s1[k]
                        else:
                            src.pop(k, None)
            elif isinstance(s, ast.For):
                # one abstract iteration; loop variables are opaque, named by the loop's source
                fe, fs = dict(env), dict(src)
                names = [n.id for n in ast.walk(s.target) if isinstance(n, ast.Name)]
                for i, nm in enumerate(names):
                    fe.pop(nm, None)
                    fs[nm] = f"<{nm} of {self.expand(s.iter, src)}>"
                self._block(s.body, fe, fs, rets)
                # strings accumulated across iterations are not modelled: forget loop-modified names
                for k in list(env):
                    if k in fe and fe[k] != env[k]:
                        env[k] = env[k] | fe[k]
            elif isinstance(s, ast.Expr) and isinstance(s.value, ast.Call) and isinstance(s.value.func, ast.Attribute) and s.value.func.attr == "append" \
                    and isinstance(s.value.func.value, ast.Name) and len(s.value.args) == 1:
                lst = s.value.func.value.id
                v = self.ev(s.value.args[0], env, src)
                self.appended[lst] = self.appended.get(lst, set()) | v
            elif isinstance(s, ast.Return):
                if rets is not None and s.value is not None:
                    rets |= self.ev(s.value, env, src)
                return True
            elif isinstance(s, ast.Raise):
                return True
        return False

    def run(self) -> AVal:
        """Abstract value of what the function returns."""
        rets: AVal = set()
        self._block(self.fn.body, {}, {}, rets)
        return rets


def literals_of(v: AVal) -> Set[str]:
    return {p[1] for alt in v for p in alt if p[0] == "lit"}


def formats_of(v: AVal) -> Set[str]:
    return {p[2] for alt in v for p in alt if p[0] == "num"}
