#!/usr/bin/env python3
"""Run the registered checks against every seeded change in /verif/seeded.

For each seeded/<id>/patch.diff: a scratch worktree of /repo HEAD is created
under /tmp, the patch applied, every claimed check is run with --repo on it,
and the worktree removed.  Results (which checks fire, with which finding keys)
are written back to seeded/<id>/meta.json under "detection" and summarised on
stdout.  usage: python3 tools/run_seeds.py [-j N] [ids...]"""
import json
import os
import subprocess
import sys
from concurrent.futures import ThreadPoolExecutor
from pathlib import Path

VERIF = Path(__file__).resolve().parent.parent
import threading
import time
_GIT_LOCK = threading.Lock()


def add_worktree(wt):
    """git worktree add is not safe to run concurrently: serialise and retry"""
    for _ in range(6):
        with _GIT_LOCK:
            r = subprocess.run(["git", "-C", "/repo", "worktree", "add", "-q", "--detach", wt, "HEAD"], stdout=subprocess.PIPE, stderr=subprocess.STDOUT, text=True)
        if r.returncode == 0 and os.path.isdir(wt):
            return True
        time.sleep(1.0)
    return False


def remove_worktree(wt):
    with _GIT_LOCK:
        subprocess.run(["git", "-C", "/repo", "worktree", "remove", "--force", wt], stdout=subprocess.PIPE, stderr=subprocess.STDOUT, text=True)



def sh(cmd, **kw):
    return subprocess.run(cmd, stdout=subprocess.PIPE, stderr=subprocess.STDOUT, text=True, **kw)


def claimed():
    m = json.load(open(VERIF / "MANIFEST.json"))
    return [c["property_id"] for c in m["checks"]]


def run_one(sid: str, props):
    d = VERIF / "seeded" / sid
    wt = f"/tmp/wt_rs_{sid}_{os.getpid()}"
    if not add_worktree(wt):
        return (sid if "sid" in dir() else bid), {"error": "could not create a scratch worktree"}
    out = {}
    try:
        ap = sh(["git", "-C", wt, "apply", str(d / "patch.diff")])
        if ap.returncode != 0:
            return sid, {"error": "patch does not apply to the current /repo HEAD: " + ap.stdout[-200:]}
        for p in props:
            c = sh(["python3-vt", "-m", "sa.run", p, "--repo", wt, "--evidence", f"{wt}/.ev.json"], cwd=str(VERIF),
                   env=dict(os.environ, SA_REPLAY_DIR=f"{wt}/.replay"))
            keys = []
            for l in c.stdout.splitlines():
                l = l.strip()
                if l.startswith("finding:") and "(key " in l:
                    keys.append(l[l.rindex("(key ") + 5:-1])
                elif "ANALYSIS-ERROR" in l:
                    keys.append(l[:200])
            if c.returncode != 0:
                out[p] = {"exit": c.returncode, "findings": keys}
    finally:
        remove_worktree(wt)
    return sid, out


def main():
    args = [a for a in sys.argv[1:] if not a.startswith("-")]
    j = 8
    if "-j" in sys.argv:
        j = int(sys.argv[sys.argv.index("-j") + 1])
        args = [a for a in args if a != str(j)]
    ids = args or sorted(p.name for p in (VERIF / "seeded").iterdir() if (p / "patch.diff").exists())
    props = claimed()
    with ThreadPoolExecutor(max_workers=j) as ex:
        results = list(ex.map(lambda s: run_one(s, props), ids))
    head = sh(["git", "-C", "/repo", "rev-parse", "--short", "HEAD"]).stdout.strip()
    vhead = sh(["git", "-C", str(VERIF), "rev-parse", "--short", "HEAD"]).stdout.strip()
    n_det = 0
    for sid, out in results:
        mp = VERIF / "seeded" / sid / "meta.json"
        meta = json.load(open(mp))
        own = meta["property"]
        det = {p: v for p, v in out.items() if isinstance(v, dict) and v.get("exit") == 1}
        err = {p: v for p, v in out.items() if isinstance(v, dict) and v.get("exit") == 2}
        meta["detection"] = {"repo_head": head, "verif_head_at_run": vhead, "fired": det, "analysis_errors": err,
                             "detected_by_own_property_check": own in det, "detected": bool(det)}
        if "error" in out:
            meta["detection"] = {"error": out["error"]}
        json.dump(meta, open(mp, "w"), indent=1)
        n_det += bool(det)
        print(f"{sid:8s} own={'Y' if own in det else '-'} fired={sorted(det)} errors={sorted(err)} "
              + (out.get("error", "") if isinstance(out, dict) else ""))
    print(f"{n_det}/{len(results)} seeded changes detected by at least one check")


if __name__ == "__main__":
    main()
