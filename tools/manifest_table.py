"""The claim table behind MANIFEST.json.  A property moves from NOT_YET to a
claim when its check exists, is silent on the clean tree and has been shown to
fire on a broken variant."""

NOT_YET = "static check designed (DESIGN.md section 4) but not yet implemented in this commit; not claimed until it runs"


def fill(claim, na):
    claim(
        "C02", "translation_validation",
        "term extraction + normal-form equality (translation validation of _impedance against the equation string; case distinctions in helpers decided per case); interpretation of the to_sympy substitution table",
        "Compares the repository's two implementations of every element's impedance as functions of all parameters and "
        "frequency: the term of Class._impedance (helpers inlined through the resolved call graph) against "
        "sympify(equation); the general transmission line's numeric and symbolic case analyses over all 243 "
        "open/short/finite configurations; symbol tables; the source of the f=0/inf limits. Equality is decided by a "
        "bounded ladder (structural, polynomial identity over abstracted generators, random interpretation of the two "
        "terms); a differing point is a witness. Decides equality of the functions, not floating-point rounding.",
        "Trusted: sympy's automatic canonicalisation on the principal branch; numpy's element-wise functions computing the "
        "principal-branch functions; the term interpreter (sa/terms.py). Not decided: rounding/overflow of coth/tanh for "
        "huge arguments; sympy.limit itself.",
        "DESIGN.md section 4, C02",
    )
    claim(
        "C04", "other",
        "escape analysis over the resolved call graph: raise-site typing, guard dominance, Optional-use and implicit-raiser rules, recursion cycles",
        "Decides which exception types can leave parse_cdc under an explicit raiser model: every raise statement "
        "reachable from parse_cdc (call graph with constant-parameter pruning) is a ParsingError/TokenizingError subclass "
        "or ValueError(msg) or is in a reviewed infeasibility table whose side conditions are themselves checked; every "
        "buffer access is dominated by a non-emptiness test; every use of an Optional result is None-guarded; int() of "
        "input floats, dict lookups and list.remove are guarded; the recursive-descent cycle is under a RecursionError "
        "handler. Behavioural clause 'accepted strings denote well-formed circuits' is decided only through C01 R1.5 / C03 R3.3.",
        "Trusted: the raiser catalogue (explicit raises, None operands, empty-buffer access, int(inf), missing key, "
        "list.remove) is complete for this scanner/parser; over-approximate method resolution by name inside the circuit package.",
        "DESIGN.md section 4, C04",
    )
    claim(
        "C14", "model_checking",
        "abstract interpretation over a finite order domain: setter bodies compiled from source, all weak orderings enumerated; __copy__/__deepcopy__/reset_* interpreted on their AST in every ordering",
        "The per-key bodies of set_values/set_lower_limits/set_upper_limits are compiled from base.py into transfer "
        "functions over symbolic values; every weak ordering of the symbols involved (source value/limits, class defaults, "
        "argument, +-inf) is enumerated, so refusal-leaves-state, l<u, clamping, reset=defaults and copy/deepcopy "
        "totality+fidelity are decided for every history, not sampled. The copy/reset/parser transfer sequences are read from "
        "the source too. An explicit-state exploration covers all states reachable with arguments from the symbol set. "
        "Aliasing rules cover independence of instances and class defaults. No trace is replayed against the implementation.",
        "Trusted: sa/orders.py (dict read/write, comparison, float(), raise); arguments are non-NaN floats; keys exist; class "
        "defaults satisfy l0<u0, l0<=v0<=u0. Not decided: float() conversion errors, NaN arguments.",
        "DESIGN.md section 4, C14",
    )
    claim(
        "C03", "other",
        "string abstraction of the emitters (shapes of what to_string writes); bounded interpretation (checker's own AST interpreter, exhaustive over the finite token/character abstraction) of the tokenizer and of Parser.param/Parser.parameters on streams derived from those shapes; stack typestate; order-domain enumeration of the parser's limit transfer",
        "Partial claim. Decides: every punctuation character, keyword and number-format letter the emitters write has a "
        "consumer in the tokenizer/parser tables; field order agrees; popping loops of the shift/reduce parser are "
        "frame-local (only Parser.process drains) and hand forward-oriented lists to Series/Parallel; the parser's "
        "value/limit transfer (read from source) succeeds in every ordering with l<=v<=u, l<u, for both/only-lower/only-upper "
        "limits; label alphabet of set_label vs tokenizer. Deep-copy identity goes through C14 R14.3. Does NOT decide "
        "numeric round-trip to printed precision nor full equivalence of all spellings.",
        "Trusted: recognisers for the emitter's string pieces and for the popping-loop idioms (unrecognised idiom = exit 2). "
        "Two known findings (labels not starting with a letter; unbalanced braces in labels).",
        "DESIGN.md section 4, C03",
    )
    claim(
        "C05", "other",
        "bounded explicit-state exploration of the DataSet on its own AST (interpreted __init__, set_mask, filters, subtraction and getters against a reference model, 1..3 points, both input orders, all masks, all operation sequences up to the bound); effect analysis of caller-owned arguments, optional-key contradiction rule, writer/reader key tables, who-may-write",
        "Structural clauses: public DataSet API does not mutate caller-owned arguments (flow-sensitive freshness analysis, "
        "inter-procedural through _parse/_parse_v1/from_dict); a key read as optional is never subscripted/deleted "
        "unguarded; under reversal of ascending input frequencies, impedances and mask keys undergo the same single "
        "reversal (swap loops are model-checked as permutations for n=1..12, comprehensions matched symbolically); filter "
        "index spaces; sibling getters share one partition predicate; to_dict/_parse/__init__ key tables agree; only "
        "__init__/set_mask/subtract_impedances write the parallel state.",
        "Not decided: non-monotonic input frequencies, average()'s tolerance, JSON float round-trip. Unrecognised "
        "re-indexing idiom = exit 2.",
        "DESIGN.md section 4, C05",
    )
    claim(
        "C01", "other",
        "exhaustive interpretation (checker-owned interpreter on the AST) of Series._impedance/Parallel._impedance over the zero/infinite/tiny/generic pattern domain with kind-typed child stubs and edit-then-evaluate histories, and of _calculate_impedances over object kinds x frequency vectors of 0/finite/tiny/inf/negative entries; fold summaries of the symbolic combinators; dominance rules",
        "Decides the STRUCTURE of composition: numeric and symbolic Series/Parallel combinators are the folds Σ Z_k and "
        "1/Σ(1/Z_k) over every child with zero start and no conditional contribution; the open/short path table of "
        "Parallel._impedance (guards classified by semantic recognisers); subclass-before-superclass dispatch with the right "
        "argument set at all five sites; _calculate_impedances' refusals, limit routing and index pairing; all entry "
        "points share one evaluator; both construction routes end in Parser().process and Circuit.__init__ binds a Series of "
        "elements/connections. Does not decide floating-point agreement of scalar vs array evaluation.",
        "Trusted: recognisers for guards (unrecognised guard in the child loop = exit 2); element-wise semantics of numpy "
        "arithmetic on the accumulator.",
        "DESIGN.md section 4, C01",
    )
    claim(
        "C15", "other",
        "write-set/restore-set comparison on registry globals, CFG must-pass-through and guard dominance, remove_elements interpreted on a registry of stand-in classes, alphabet table agreement (registry vs tokenizer), import-time snapshot rule",
        "Structural: every registry global mutated by register_element is restored by reset(); class defaults written by "
        "set_default_values are snapshotted at import and restored; the registry store is dominated by the duplicate-symbol "
        "refusal and removal by the default-element refusal (CFG must-pass); _initialized() runs after all element modules; "
        "every path to the store passes symbol validation and (under the import-time flag) equation-vs-_impedance "
        "validation of both parts; nobody outside registry.py reads the globals, get_elements() is never evaluated at "
        "import time, the parser reads the table per instance; tokenizer's element-identifier alphabet ⊇ registry's and "
        "has no upper-case continuation.",
        "Not decided: 'behaves exactly as freshly imported' beyond these tables (e.g. a built-in class re-registered under a "
        "second symbol). Unrecognised restore idiom = exit 2.",
        "DESIGN.md section 4, C15",
    )
    claim(
        "C16", "other",
        "use-site enumeration with a reviewed running-flag table; interpretation of generate_element_identifiers (Connection and Container) and of Element/Container.to_sympy over their finite input abstractions; identifier-forwarding rule; writer/reader agreement for fit identifiers; diagram-label provenance",
        "Every numbering of elements goes through generate_element_identifiers with an explicit running flag; the flag at "
        "each of the reviewed use sites is the one its role needs (symbolic variables, fit identifiers and the suffix "
        "reader: running; display names: per-type); writers (Element/Container.to_sympy, generate_fit_identifiers) and "
        "the reader (_extract_parameters: endswith + rsplit) agree on <symbol>_<id>; the fitted-parameter table names "
        "elements by the same rule as get_element_name; traversal is duplicate-free and enters sub-circuits; per-type "
        "counts start at 1 in both sibling implementations; duplicate names are rejected before fitting.",
        "Trusted: the reviewed role table (12 sites). A new use site is reported as a note, not decided.",
        "DESIGN.md section 4, C16",
    )
    claim(
        "C20", "other",
        "bounded-exhaustive interpretation of to_circuitikz and to_drawing (their AST, checker-owned interpreter) on every circuit topology up to a node bound; abstract interpretation over the kind of the visited child {Series, Parallel, Element} at every traversal site; framing; naming rules shared with C16",
        "At the 11 child-traversal sites of the two diagram back ends, to_stack and to_sympy, the dispatch covers all three "
        "kinds, the fall-through raises or handles the rest, each element arm emits exactly once and recursion is on the "
        "visited child; to_latex is latex(to_sympy(False)); CircuiTikZ begin/end framing on every path; push/pop in "
        "draw_parallel counted equal for n=1..8 branches; exporters are installed on Circuit and Connection. Symbol "
        "clauses are decided by C02 R2.2 and C16. R20.5: both exporters are interpreted statement by statement on stand-in circuits "
        "of every series/parallel/element tree up to the bound (as circuit and as bare connection, display and running identifiers, "
        "with and without a label): no raise, one begin/end frame, balanced push/pop, one component per element named "
        "<symbol>_<label or identifier>. Two genuine defects on degenerate connections are listed as known findings.",
        "Not decided: coordinates, that schemdraw/LaTeX accept the emitted calls, empty connections.",
        "DESIGN.md section 4, C20",
    )
    claim(
        "C08", "other",
        "def-use provenance of result fields (inter-procedural through tuple positions), term identity of residual/chi-squared definitions, masked-view rule, mutation summaries for inputs",
        "At each of the 8 result constructors the fields are traced to their definitions: frequencies = "
        "data.get_frequencies(); residuals = _calculate_residuals(A, B) and pseudo_chisqr = _calculate_pseudo_chisqr(A, B) "
        "with A = data.get_impedances() and B the reported impedances (producers behind tuples/records are followed by "
        "position: KK fits record, fit worker tuple, BHT worker tuple); |residual|^2 is proved equal (sympy) to the "
        "chi-squared summand and the three Boukamp weights to each other; every DataSet read in analysis/ uses the "
        "unmasked default view; no public analysis entry point mutates its data set or circuit (fixpoint mutation "
        "summaries, worker tuples followed).",
        "Not decided: that the model impedances are a good fit; BHT worker's model impedance vs _calculate_model_impedance "
        "term equality (noted). Trusted: name-resolution of result fields is by last textual binding.",
        "DESIGN.md section 4, C08",
    )
    claim(
        "C17", "other",
        "twin-branch agreement at every Pool fan-out, total-order rule for imap_unordered fan-in, randomness inventory with a triage table, worker tuple packer/unpacker agreement, inter-procedural shared-object taint from worker tuples",
        "Static hazards that make results depend on scheduling or repetition: the pooled and serial arm of each of the "
        "fan-outs map the same worker over the same arguments and treat results identically (also the unrolled arm in "
        "TR-RBF and the iterator.next() form); num_procs flows only into Pool(), validation, arm selection and forwarding; "
        "results collected with imap_unordered are sorted with a key that includes every discriminating scalar field of "
        "the worker's result before a winner is taken; every draw from a global random generator reachable from "
        "analysis/ is in a reviewed table (3 known findings: BHT rand, BHT rvs, TR-RBF randn); mock data draw only from "
        "RandomState(seed=seed); worker tuples agree in arity and names.",
        "Not decided: bit-identity of BLAS/LAPACK across thread counts; 'differs between seeds'. Trusted: the benign "
        "classification of cubic.py's random start vector.",
        "DESIGN.md section 4, C17",
    )
    claim(
        "C12", "other",
        "interpretation of _to_lmfit/_from_lmfit with stand-ins for lmfit.Parameters and elements; CFG must-pass-through for the final write-back, mutation summaries, sort-key inspection",
        "Partial: decides the wiring of the invariants, not recovery of generating parameters. _to_lmfit passes "
        "value/min/max/vary/expr taken from the element's own getters and refuses values outside their limits; "
        "_fit_process fits a deep copy, generates identifiers from it, and every path to its success return passes the "
        "final _from_lmfit write-back; FitResult.parameters is extracted from the same circuit and minimizer result; "
        "fit_circuit does not modify its inputs and validates method/weight against the tables it iterates before work; "
        "the winner is the smallest pseudo chi-squared among successful fits; _from_lmfit inverts the identifier map.",
        "Trusted: lmfit honours min/max/vary/expr. Many recognisers are shape-specific (a refactoring can need re-confirmation).",
        "DESIGN.md section 4, C12",
    )
    claim(
        "C18", "other",
        "abstract interpretation counting progress increments symbolically (sizes of option lists as polynomial symbols, all consistent truth assignments of option tests explored), option-table agreement, raise-type inventory",
        "For 12 Progress blocks (the log-F_ext optimisation branch of evaluate_log_F_ext excepted, stated in the evidence) "
        "an abstract interpreter inlines every callee that receives the progress object, tracks collection sizes "
        "symbolically, explores every consistent assignment of the option tests, and proves increments <= total-1 as a "
        "polynomial inequality — so a miscounted literal, an option list that grows, or an extra increment is found for "
        "every option combination at once. Also: 'auto' expansions and validation tables vs dispatch arms; raise types in "
        "entry points; type validation before work; Progress.increment's refusal precedes notification.",
        "Trusted lemmas (listed per block in the evidence): map/imap yield one result per item; filtered comprehensions "
        "and slices do not grow; len(range(a,b)) = b-a; the Z-HIT window registry is non-empty. Not decided: shape/index "
        "errors inside numerical kernels; failures inside SciPy/lmfit.",
        "DESIGN.md section 4, C18",
    )
    claim(
        "C07", "translation_validation",
        "design-matrix column terms read back from an interpretation of each column builder on a matrix stand-in, term extraction of the variable→parameter map, symbolic identity against the model circuit built from the registered element equations",
        "For 36 configurations (2 linear implementations × 3 tests × {Z,Y} × capacitance × inductance where applicable) the "
        "columns stored by the matrix builders and the map applied by _update_circuit are extracted from the source and it "
        "is proved with sympy that block(X_model(ω; g(x))) ≡ Σ_j x_j·col_j(ω) for the circuit _generate_circuit builds: the "
        "linear system IS the model, so a spectrum of the model is reproduced by any full-rank solve. Also: column order vs "
        "the order in which _update_circuit takes variables, b-vector blocks, one scaling factor for A and b in the "
        "matrix-inversion form, agreement of the two implementations' k-th column.",
        "Not decided: rank/conditioning of the design matrix, the non-linear CNLS implementation, the second-stage "
        "corrections of the real/imaginary tests (only their column/variable placement). Element equations are taken from "
        "the equation strings that C02 ties to _impedance.",
        "DESIGN.md section 4, C07",
    )
    claim(
        "C09", "other",
        "homogeneity (scaling-degree) analysis of extracted terms by symbolic substitution, unit-derived expected degrees, def-use provenance of the pseudo chi-squared weight through callers",
        "Decides the mechanism of unit invariance for the linear Kramers-Kronig pipeline: each design-matrix column is "
        "homogeneous under (ω→kω, τ→τ/k) with one degree for all row blocks; the time constants scale as 1/k, depend on ω "
        "only through max/min (order-free) and not on Z; combined with the least-squares equivariance lemma the fitted "
        "R, C, L, R_k/C_k rescale with exactly the degrees their declared units (ohm, F, H, s) prescribe; weight has degree "
        "-2, residual and pseudo chi-squared summand degree 0; bare numeric literals on dimensioned fit variables are the "
        "three reviewed nullifying constants. Point order reduces to C05 (DataSet normalises the order).",
        "Trusted: the equivariance lemma for least squares (stated in the evidence). Not decided: the non-linear CNLS path, "
        "conditioning.",
        "DESIGN.md section 4, C09",
    )
    claim(
        "C11", "other",
        "interpretation of _reconstruct on a symbolic grid (quad and derivator as uninterpreted functions; identity with 2/pi*I + gamma*D, gamma=-pi/6, both representations) and term extraction of the offset residual (weight factorisation; translation invariance) plus def-use pairing of worker tuples and phase keys",
        "Decides the repository's own part of the Z-HIT mechanism: _reconstruct evaluates 2/pi*integral(phase) + gamma*dphase with "
        "gamma = -pi/6, integrating the phase interpolator from the first ln omega to the current one, identically in the impedance "
        "and admittance branches; the offset residual is weights x g(reconstruction + offset - ln|X|) so zero-weight points cannot "
        "influence the offset and a constant factor on |Z| shifts the offset by its logarithm; all-zero/negative weights are refused; "
        "X_fit = rect(exp(ln_modulus + offset), phase) with the phase of the same (interpolation, smoothing) entry; window support and "
        "clipping to [0, 1].",
        "Not decided: how well a smoothed/interpolated phase recovers an ideal R-C/R-L/RC modulus (numerics of SciPy/statsmodels), "
        "the 'within a few percent' tolerance, conditioning of quad.",
        "DESIGN.md section 4, C11",
    )
    claim(
        "C13", "other",
        "term extraction to sympy and bounded equality ladder against the registered K/RQ element equations; partial-fraction identity; closed-form integrals; scaling-degree substitution",
        "Decides the kernel clause of DRT estimation: the TR-NNLS design matrix and model impedance are the real/imaginary parts of the "
        "registered K element (R/(1+j w tau)) discretised with delta ln tau; b-vector sign convention; gamma is rescaled by R_pol; the "
        "Loewner partial-fraction extraction gamma_k = -residue/eigenvalue, tau_k = -1/eigenvalue reproduces sum R_k/(1+j w tau_k); "
        "m(RQ)fit closed-form gamma(tau) for RQ integrates to R and the Gaussian RC replacement has area R; scaling degrees of gamma, tau.",
        "Not decided: regularisation quality, peak positions on noisy data, optimiser convergence.",
        "DESIGN.md section 4, C13",
    )
    claim(
        "C19", "other",
        "call-site wiring analysis over the resolved CLI modules: option-to-parameter forwarding against argparse dests and API signatures, def-use provenance of reported values, must-pass-through emission on the statement CFG, dispatch-table agreement, parse_circuits interpreted",
        "Decides the wiring that makes the CLI report what the API computes: every keyword at a CLI->API call site (fit_circuit, "
        "calculate_drt, perform_zhit, evaluate_log_F_ext, simulate_spectrum) takes the option of the same name, defined for that "
        "sub-command and accepted by the API; no same-named option is dropped; sibling call sites agree; the data handed over is "
        "the parse_inputs element after apply_filters (low/high pass, excluded indices mapped to the right DataSet methods); the "
        "emitted tables are format_text of dataframes of the API result (last refinement); every such text reaches print_func or "
        "the output file on every path; format_text dispatches csv/md/tex/json to the pandas writer of that format on the "
        "unmodified frame; mock specifier keys and types are those generate_mock_data reads; the sub-command table.",
        "Not decided: number formatting inside pandas writers (md uses the requested significant digits), plot contents, "
        "argparse type conversion, config-file defaults.",
        "DESIGN.md section 4, C19",
    )
    claim(
        "C06", "other",
        "interpretation (checker-owned interpreter on the AST) of _detect_columns on 312 header rows, of _extract_data on 192 small tables and of _split_sweeps on every ordering of up to 6 points; constant-index bound rule; per-layout column/sign table; dispatch-table agreement",
        "Decides the repository's own part of the file round trip: no alias is shadowed by an earlier quantity's alternative, every "
        "documented alias is in the table, the headers written by to_dataframe (hence the CLI parse table) and by the instrument "
        "parsers are read back as the quantity they hold with no sign marker; each quantity is read from its own column, gets the "
        "decimal-comma conversion and its own sign marker, polar data become rect(|Z|, phase) with degree conversion; sweeps cut all "
        "three lists at one index and never index past what the caller guarantees (a one-row table is a spectrum); mpt/P00/dfr negate "
        "the imaginary column, i2b/dta do not; every extension selects the parser of its layout; csv separator/decimal fallbacks.",
        "Not decided: pandas.read_csv's tokenising (separator sniffing, quoting), float formatting/round-off, the binary/spreadsheet "
        "formats (.ids, .pssession, .xlsx/.ods), exact layout of instrument files beyond the columns used.",
        "DESIGN.md section 4, C06",
    )
    claim(
        "C10", "other",
        "def-use provenance over _suggest_using_default / suggest_num_RC / perform_kramers_kronig_test (suggestion drawn from the list filtered with the returned limits); index-space agreement in _suggest_representation (scores and result refer to the same sorted list)",
        "Decides two structural clauses only: (1) the suggested number of RC elements lies inside the limits it is reported with; (2) the representation choice scores and returns candidates of one and the same list sorted by pseudo chi-squared. The default "
        "path binds (lower, upper) once from suggest_num_RC_limits, refuses an empty range, filters the tests with "
        "lower <= num_RC <= upper, draws every candidate for the suggestion from the filtered list and returns those same "
        "limits; suggest_num_RC routes the default settings there and returns the tuple unchanged; perform_kramers_kronig_test "
        "returns one of the collected suggestions.",
        "NOT decided (no sound static argument): that the estimated noise is of the order of the injected noise, that the fit "
        "neither over- nor under-fits, and that drift-corrupted spectra give a much larger pseudo chi-squared: these quantify over "
        "random noise and optimiser outcomes.",
        "DESIGN.md section 4, C10",
    )
