"""The claim table behind MANIFEST.json.  A property moves from NOT_YET to a
claim when its check exists, is silent on the clean tree and has been shown to
fire on a broken variant."""

NOT_YET = "static check designed (DESIGN.md section 4) but not yet implemented in this commit; not claimed until it runs"


def fill(claim, na):
    claim(
        "C02", "translation_validation",
        "term extraction + normal-form equality (translation validation of _impedance against the equation string)",
        "Compares the repository's two implementations of every element's impedance as functions of all parameters and "
        "frequency: the term of Class._impedance (helpers inlined through the resolved call graph) against "
        "sympify(equation); the general transmission line's numeric and symbolic case analyses over all 243 "
        "open/short/finite configurations; symbol tables; the source of the f=0/inf limits. Equality is decided by a "
        "bounded ladder (structural, polynomial identity over abstracted generators, random interpretation of the two "
        "terms); a differing point is a witness. Decides equality of the functions, not floating-point rounding.",
        "Trusted: sympy's automatic canonicalisation on the principal branch; numpy's element-wise functions computing the "
        "principal-branch functions; the term interpreter (sa/terms.py). Not decided: rounding/overflow of coth/tanh for "
        "huge arguments; sympy.limit itself.",
        "DESIGN.md section 4, C02",
    )
    for pid in ("C01", "C03", "C04", "C05", "C06", "C07", "C08", "C09", "C11", "C12", "C13", "C14", "C15", "C16",
                "C17", "C18", "C19", "C20"):
        na(pid, NOT_YET)
    na("C10", "statistical behaviour of a heuristic pipeline (noise tracking, drift margin) on noisy inputs: quantifies over "
              "numerical outcomes of optimisers and random noise; no sound static argument bounds it")
