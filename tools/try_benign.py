#!/usr/bin/env python3
"""Confirm behaviour-preserving changes produced by independent agents and run every check against them.

usage: python3 tools/try_benign.py <dir with patch_X.diff/equiv_X.py/meta_X.json> <TAG> [--store]

For each X: scratch worktree of /repo HEAD; equiv_X.py output before and after the patch must be identical; the pinned
baseline must stay 262/262; then every claimed check runs with --repo on the patched worktree.  Expected: every check
exits 0.  With --store the confirmed change is kept as /verif/benign/<TAG>-<X>/ (patch.diff, equiv.py, meta.json)."""
import json
import os
import subprocess
import sys
from concurrent.futures import ThreadPoolExecutor
from pathlib import Path

VERIF = Path(__file__).resolve().parent.parent


def sh(cmd, **kw):
    return subprocess.run(cmd, stdout=subprocess.PIPE, stderr=subprocess.STDOUT, text=True, **kw)


def claimed():
    return [c["property_id"] for c in json.load(open(VERIF / "MANIFEST.json"))["checks"]]


def one(d: Path, tag: str, x: str, store: bool):
    wt = f"/tmp/wt_bn_{tag}_{x}_{os.getpid()}"
    sh(["git", "-C", "/repo", "worktree", "add", "-q", "--detach", wt, "HEAD"])
    res = {"x": x}
    try:
        env = dict(os.environ, PYTHONPATH=f"{wt}/src", MPLBACKEND="agg")
        eq = d / f"equiv_{x}.py"
        def run_eq():
            return subprocess.run(["/venv/bin/python", str(eq)], cwd=wt, env=env, timeout=1800, stdout=subprocess.PIPE, stderr=subprocess.DEVNULL, text=True)
        before = run_eq()
        ap = sh(["git", "-C", wt, "apply", str(d / f"patch_{x}.diff")])
        if ap.returncode != 0:
            res["error"] = "patch does not apply: " + ap.stdout[-200:]
            return res
        after = run_eq()
        res["equiv_same"] = before.returncode == 0 and after.returncode == 0 and before.stdout == after.stdout
        b = sh(["python3", "/tmp/baseline_check.py", wt], timeout=3600)
        res["baseline"] = b.stdout.strip().splitlines()[0] if b.stdout.strip() else "?"
        checks = {}
        for p in claimed():
            c = sh(["python3-vt", "-m", "sa.run", p, "--repo", wt, "--evidence", f"{wt}/.ev.json"], cwd=str(VERIF), env=dict(os.environ, SA_REPLAY_DIR=f"{wt}/.replay"))
            if c.returncode != 0:
                lines = [l.strip()[:300] for l in c.stdout.splitlines() if l.strip().startswith("finding:") or "ANALYSIS-ERROR" in l]
                checks[p] = {"exit": c.returncode, "lines": lines}
        res["non_silent"] = checks
        if store and res["equiv_same"] and "262/262" in res["baseline"]:
            sd = VERIF / "benign" / f"{tag}-{x}"
            sd.mkdir(parents=True, exist_ok=True)
            (sd / "patch.diff").write_text((d / f"patch_{x}.diff").read_text())
            (sd / "equiv.py").write_text(eq.read_text())
            try:
                meta = json.loads((d / f"meta_{x}.json").read_text())
            except Exception:
                meta = {}
            meta["author"] = "independent sub-agent given only the property texts and a scratch worktree; asked for behaviour-preserving changes"
            meta["confirmed_by_me"] = {"equiv_output_identical": True, "baseline_with_patch": res["baseline"]}
            meta["first_result"] = checks
            (sd / "meta.json").write_text(json.dumps(meta, indent=1) + "\n")
            res["stored"] = str(sd.relative_to(VERIF))
    finally:
        sh(["git", "-C", "/repo", "worktree", "remove", "--force", wt])
    return res


def main():
    d, tag = Path(sys.argv[1]), sys.argv[2]
    store = "--store" in sys.argv
    xs = sorted(p.stem.replace("patch_", "") for p in d.glob("patch_*.diff"))
    with ThreadPoolExecutor(max_workers=4) as ex:
        for r in ex.map(lambda x: one(d, tag, x, store), xs):
            print(json.dumps(r, indent=1))


if __name__ == "__main__":
    main()
