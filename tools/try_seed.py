#!/usr/bin/env python3
"""Confirm a seeded change and run the checks against it.

usage: python3 tools/try_seed.py <dir with patchK.diff/demoK.py/metaK.json> <PROP> [K ...] [--no-baseline]

For each K: creates a scratch worktree of /repo HEAD under /tmp, runs demoK.py
on the unchanged tree (must exit 0), applies patchK.diff, runs demoK.py (must
exit non-zero), optionally runs the pinned baseline (262/262), then runs the
check of PROP (and any extra checks given with --also C01,C02) with --repo on
the worktree.  The worktree is removed afterwards."""
import json
import os
import subprocess
import sys
from pathlib import Path

VERIF = Path(__file__).resolve().parent.parent


def sh(cmd, **kw):
    return subprocess.run(cmd, stdout=subprocess.PIPE, stderr=subprocess.STDOUT, text=True, **kw)


def main():
    args = [a for a in sys.argv[1:] if not a.startswith("--")]
    flags = [a for a in sys.argv[1:] if a.startswith("--")]
    d, prop = Path(args[0]), args[1]
    ks = args[2:] or sorted({p.stem.replace("patch", "") for p in d.glob("patch*.diff")})
    also = []
    for f in flags:
        if f.startswith("--also="):
            also = f.split("=", 1)[1].split(",")
    results = []
    for k in ks:
        wt = f"/tmp/wt_seed_{prop}_{k}_{os.getpid()}"
        sh(["git", "-C", "/repo", "worktree", "add", "-q", "--detach", wt, "HEAD"])
        try:
            env = dict(os.environ, PYTHONPATH=f"{wt}/src")
            demo = d / f"demo{k}.py"
            r0 = sh(["/venv/bin/python", str(demo)], cwd=wt, env=env, timeout=1800)
            ap = sh(["git", "-C", wt, "apply", str(d / f"patch{k}.diff")])
            if ap.returncode != 0:
                results.append((k, "patch does not apply", ap.stdout[-300:]))
                continue
            r1 = sh(["/venv/bin/python", str(demo)], cwd=wt, env=env, timeout=1800)
            base = "skipped"
            if "--no-baseline" not in flags:
                b = sh(["python3", "/tmp/baseline_check.py", wt], timeout=3600)
                base = b.stdout.strip().splitlines()[0] if b.stdout.strip() else "?"
            out = {}
            for p in [prop] + also:
                c = sh(["python3-vt", "-m", "sa.run", p, "--repo", wt, "--evidence", f"/tmp/ev_seed_{os.getpid()}.json"], cwd=str(VERIF),
                       env=dict(os.environ, SA_REPLAY_DIR=f"/tmp/replay_seed_{os.getpid()}"))
                finds = [l.strip()[:260] for l in c.stdout.splitlines() if l.strip().startswith("finding:") or "ANALYSIS-ERROR" in l]
                out[p] = (c.returncode, finds)
            results.append((k, dict(demo_clean=r0.returncode, demo_patched=r1.returncode, baseline=base, checks=out,
                                    demo_tail=r1.stdout.strip().splitlines()[-1:] if r1.stdout.strip() else [])))
        finally:
            sh(["git", "-C", "/repo", "worktree", "remove", "--force", wt])
            for f in (f"/tmp/ev_seed_{os.getpid()}.json",):
                if os.path.exists(f):
                    os.unlink(f)
            sh(["rm", "-rf", f"/tmp/replay_seed_{os.getpid()}"])
    store = []
    for f in flags:
        if f.startswith("--store="):
            store = f.split("=", 1)[1].split(",")
    for i, (k, r) in enumerate(results):
        print(f"== {prop} seed {k}")
        print(json.dumps(r, indent=1) if isinstance(r, dict) else r)
        if store and isinstance(r, dict):
            if not (r["demo_clean"] == 0 and r["demo_patched"] != 0 and "262/262" in r["baseline"]):
                print(f"   NOT stored as {store[i]}: not confirmed")
                continue
            sd = VERIF / "seeded" / store[i]
            sd.mkdir(parents=True, exist_ok=True)
            (sd / "patch.diff").write_text((d / f"patch{k}.diff").read_text())
            (sd / "demo.py").write_text((d / f"demo{k}.py").read_text())
            try:
                meta = json.loads((d / f"meta{k}.json").read_text())
            except Exception:
                meta = {}
            meta.setdefault("property", prop)
            meta["author"] = "independent sub-agent given only the property text and a scratch worktree"
            meta["confirmed_by_me"] = dict(demo_on_clean_tree_exit=r["demo_clean"], demo_with_patch_exit=r["demo_patched"], baseline_with_patch=r["baseline"],
                                           how="tools/try_seed.py: scratch worktree of /repo HEAD, demo before/after git apply, tools/baseline.py equivalent with PYTHONPATH on the worktree")
            meta["first_check_result"] = {p: dict(exit=rc, findings=[x.replace("finding: ", "")[:200] for x in fs]) for p, (rc, fs) in r["checks"].items()}
            (sd / "meta.json").write_text(json.dumps(meta, indent=1) + "\n")
            print(f"   stored as seeded/{store[i]}")


if __name__ == "__main__":
    main()
