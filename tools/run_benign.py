#!/usr/bin/env python3
"""Run every claimed check against every stored behaviour-preserving change in /verif/benign: all must stay silent.
usage: python3 tools/run_benign.py [-j N] [ids...]   (writes "result" into benign/<id>/meta.json)"""
import json
import os
import subprocess
import sys
from concurrent.futures import ThreadPoolExecutor
from pathlib import Path

VERIF = Path(__file__).resolve().parent.parent
import threading
import time
_GIT_LOCK = threading.Lock()


def add_worktree(wt):
    """git worktree add is not safe to run concurrently: serialise and retry"""
    for _ in range(6):
        with _GIT_LOCK:
            r = subprocess.run(["git", "-C", "/repo", "worktree", "add", "-q", "--detach", wt, "HEAD"], stdout=subprocess.PIPE, stderr=subprocess.STDOUT, text=True)
        if r.returncode == 0 and os.path.isdir(wt):
            return True
        time.sleep(1.0)
    return False


def remove_worktree(wt):
    with _GIT_LOCK:
        subprocess.run(["git", "-C", "/repo", "worktree", "remove", "--force", wt], stdout=subprocess.PIPE, stderr=subprocess.STDOUT, text=True)



def sh(cmd, **kw):
    return subprocess.run(cmd, stdout=subprocess.PIPE, stderr=subprocess.STDOUT, text=True, **kw)


def run_one(bid, props):
    d = VERIF / "benign" / bid
    wt = f"/tmp/wt_rb_{bid}_{os.getpid()}"
    if not add_worktree(wt):
        return (sid if "sid" in dir() else bid), {"error": "could not create a scratch worktree"}
    out = {}
    try:
        ap = sh(["git", "-C", wt, "apply", str(d / "patch.diff")])
        if ap.returncode != 0:
            return bid, {"error": "patch does not apply to the current /repo HEAD"}
        for p in props:
            c = sh(["python3-vt", "-m", "sa.run", p, "--repo", wt, "--evidence", f"{wt}/.ev.json"], cwd=str(VERIF), env=dict(os.environ, SA_REPLAY_DIR=f"{wt}/.replay"))
            if c.returncode != 0:
                out[p] = {"exit": c.returncode, "lines": [l.strip()[:260] for l in c.stdout.splitlines() if l.strip().startswith("finding:") or "ANALYSIS-ERROR" in l]}
    finally:
        remove_worktree(wt)
    return bid, out


def main():
    args = [a for a in sys.argv[1:] if not a.startswith("-")]
    j = 8
    if "-j" in sys.argv:
        j = int(sys.argv[sys.argv.index("-j") + 1])
        args = [a for a in args if a != str(j)]
    ids = args or sorted(p.name for p in (VERIF / "benign").iterdir() if (p / "patch.diff").exists())
    props = [c["property_id"] for c in json.load(open(VERIF / "MANIFEST.json"))["checks"]]
    with ThreadPoolExecutor(max_workers=j) as ex:
        results = list(ex.map(lambda s: run_one(s, props), ids))
    bad = 0
    for bid, out in results:
        mp = VERIF / "benign" / bid / "meta.json"
        meta = json.load(open(mp))
        meta["result"] = {"silent": not out, "non_silent": out}
        json.dump(meta, open(mp, "w"), indent=1)
        alarms = sorted(p for p, v in out.items() if isinstance(v, dict) and v.get("exit") == 1)
        errs = sorted(p for p, v in out.items() if isinstance(v, dict) and v.get("exit") == 2)
        bad += bool(out)
        print(f"{bid:14s} {'silent' if not out else 'NOT SILENT'} alarms={alarms} analysis_errors={errs} {out.get('error', '') if isinstance(out, dict) else ''}")
    print(f"{len(results) - bad}/{len(results)} behaviour-preserving changes leave every check silent")


if __name__ == "__main__":
    main()
