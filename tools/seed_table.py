#!/usr/bin/env python3
"""Print the seeded-change ↔ check table (markdown) from seeded/*/meta.json."""
import json
from pathlib import Path

root = Path(__file__).resolve().parent.parent / "seeded"
print("| seed | what the independent agent changed (abridged) | fired (check: rule keys) | own check |")
print("|---|---|---|---|")
for d in sorted(root.iterdir()):
    m = json.loads((d / "meta.json").read_text())
    det = m.get("detection", {})
    fired = det.get("fired", {})
    cell = "; ".join(f"{p}: " + ", ".join(k.split("|")[0] + "‖" + k.split("|", 1)[1][:48] if "|" in k else k[:50] for k in v.get("findings", [])[:3]) for p, v in sorted(fired.items())) or "— (not detected)"
    summ = " ".join(m.get("summary", "").split())[:170].replace("|", "\\|")
    print(f"| {d.name} | {summ} | {cell.replace('|', '¦')} | {'yes' if det.get('detected_by_own_property_check') else ('other' if det.get('detected') else 'NO')} |")
