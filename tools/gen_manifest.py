#!/usr/bin/env python3
"""Regenerates MANIFEST.json from the table below and validates it against
the schema.  Run: python3-vt tools/gen_manifest.py"""
import json
import sys
from pathlib import Path

VERIF = Path(__file__).resolve().parent.parent
ALL = [f"C{i:02d}" for i in range(1, 21)]

# id -> (category, technique, text, note, design_ref)
CHECKS = {}
NA = {}


def claim(pid, category, technique, text, note, ref):
    CHECKS[pid] = dict(category=category, technique=technique, text=text, note=note, ref=ref)


def na(pid, reason):
    NA[pid] = reason


sys.path.insert(0, str(VERIF / "tools"))
from manifest_table import fill  # noqa: E402

fill(claim, na)

for pid in ALL:
    if pid not in CHECKS and pid not in NA:
        raise SystemExit(f"{pid} neither claimed nor not_applicable")
    if pid in CHECKS and pid in NA:
        raise SystemExit(f"{pid} both claimed and not_applicable")

manifest = {
    "version": 1,
    "setup_cmd": "python3-vt -m compileall -q sa tools",
    "hooks": {
        "guard": "PYIMPSPEC_VERIF",
        "enable": "no source hooks are used: every check reads /repo's working tree with ast and never imports it",
        "baseline_off_cmd": "python3 tools/baseline.py /repo",
        "source_commits": [],
        "add_only": True,
    },
    "engines": [
        {"name": "sa", "path": "sa/", "serves_properties": sorted(CHECKS),
         "kind_free_text": "repository-specific static analysis over Python ASTs: resolved program model (imports, MRO, call graph), "
                           "statement CFG + structured guard analysis, term extraction to sympy with a bounded equality ladder, "
                           "finite order-domain abstract interpretation, effect/alias rules, writer/reader table agreement"},
    ],
    "checks": [],
    "notes": "All checks are static: they parse /repo/src/pyimpspec on every run, never import or execute it. Exit 0 = all rule "
             "instances hold (KNOWN-FINDING lines for listed findings), 1 = VIOLATION, 2 = ANALYSIS-ERROR (vanished anchor, "
             "instance floor not met, unsupported construct). Known findings: known_findings.json. Self-test: python3-vt -m sa.selftest.",
    "not_applicable": [{"property_id": k, "reason": v} for k, v in sorted(NA.items())],
}
for pid in sorted(CHECKS):
    c = CHECKS[pid]
    manifest["checks"].append({
        "property_id": pid,
        "quick_cmd": f"python3-vt -m sa.run {pid} --tier quick",
        "thorough_cmd": f"python3-vt -m sa.run {pid} --tier thorough",
        "evidence_file": f"evidence/{pid}.json",
        "replay_cmd_template": f"python3-vt -m sa.run {pid} --replay {{path}}",
        "engine": "sa",
        "level_claimed": {"category": c["category"], "text": c["text"], "design_ref": c["ref"]},
        "level_note": c["note"],
        "technique": c["technique"],
    })

out = VERIF / "MANIFEST.json"
out.write_text(json.dumps(manifest, indent=1) + "\n")
try:
    import jsonschema
    jsonschema.validate(manifest, json.load(open("/root/.vp/MANIFEST.schema.json")))
    print(f"MANIFEST.json written and valid: {len(CHECKS)} checks, {len(NA)} not applicable")
except ImportError:
    print("MANIFEST.json written (jsonschema not available, not validated)")
