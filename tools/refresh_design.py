#!/usr/bin/env python3
"""Regenerate the generated parts of DESIGN.md: the status table of 8.2 (rule / instance counts from evidence/*.json),
the seed table of 8.5 (from seeded/*/meta.json) and the corpus sizes.  Hand-written text is left alone."""
import json
import re
import subprocess
import sys
from pathlib import Path

ROOT = Path(__file__).resolve().parent.parent
DESIGN = ROOT / "DESIGN.md"

DECIDED = {
    "C01": ("composition law", "**interpretation** of `Series/Parallel._impedance` on 1177 zero/inf/tiny/generic child patterns plus edit-then-evaluate histories, and of `_calculate_impedances` on 779 (kind × frequency vector) cases; symbolic fold summaries; constructor, builder and recompute rules"),
    "C02": ("numeric = equation for all registered elements, 243 Tlm configurations", "term extraction + equality ladder, case distinctions (Piecewise) decided case by case; substitution table of `to_sympy` interpreted; no memoised limit"),
    "C03": ("partial: language agreement emitter↔tokenizer↔parser, stack discipline, order, limits", "string abstraction of the emitter, **interpretation** of `Parser.param/parameters` and of the tokenizer on the emitter's shapes, order domain for limit transfer, def-use"),
    "C04": ("escape model of `parse_cdc`", "reachability with triage table, Optional-use rule, recursion cycles, fresh containers, **bounded-exhaustive malformed parameter tails** (7381) through the interpreted parser"),
    "C05": ("the data set as a state machine", "**explicit-state exploration** of the interpreted `DataSet` (28 initial states, all operation pairs; triples in the thorough tier) against a list-of-triples model; freshness/mutation summaries; dictionary round-trip keys"),
    "C06": ("partial: the repository's own tables and dataflow", "**interpretation** of `_detect_columns` on 312 header rows, of `_extract_data` on 192 small tables and of `_split_sweeps` on all orderings of 1..6 points; per-layout column/sign table; dispatch table; fresh separator list"),
    "C07": ("design matrix ≡ model in 36 configurations", "translation validation of the matrix builders against the circuit they describe, the column terms read back from an **interpretation** of each builder on a matrix stand-in; exact zero guards; single writer; stateless pipeline"),
    "C08": ("provenance of every reported residual / χ²", "def-use resolver with reaching definitions (phi), identity of the residual term, impedance source of results carrying a circuit"),
    "C09": ("unit invariance of the linear pipeline", "homogeneity by substitution, unit table, reviewed nullifying constants, exact zero guards, provenance of the pseudo-χ² weight through callers"),
    "C10": ("**two clauses**: suggestion inside the reported limits; index space of the representation choice", "def-use provenance in `_suggest_using_default` / `suggest_num_RC` / `_suggest_representation`"),
    "C11": ("partial: formula, weights, pairing, window, statelessness", "**interpretation** of `_reconstruct` on a symbolic grid (quad ↦ Int, derivator ↦ D), of `_reconstruct_modulus_data` with the real worker on distinguishable interpolators (serial and reversed pool), and of `_generate_weights`; factorisation of the offset residual; stateless rule"),
    "C12": ("partial: constraint wiring", "**interpretation** of `_to_lmfit`/`_from_lmfit` with stand-ins for lmfit.Parameters and elements; def-use by position, must-pass-through of the final `_from_lmfit`, copy discipline"),
    "C13": ("partial: kernels and closed forms", "term identity with the registered K/RQ equations, partial fractions, closed-form areas, eig pairing, per-pair freshness, trapezoid weights on symbolic arrays, no in-place writes into caller arrays"),
    "C14": ("state machine of the parameter API", "model checking over weak orderings (setters compiled from source) + **interpretation** of `__copy__/__deepcopy__/reset_parameters/reset_parameter` in every ordering; aliasing rules"),
    "C15": ("registry life cycle", "dynamic-globals inventory, transitive writes, duplicate guard, validation wiring, **interpretation** of `remove_elements` on a registry of stand-in classes"),
    "C16": ("names and identifiers", "one identifier source, running-flag table, writer/reader format agreement, diagram-label provenance, `set_label` and `generate_element_identifiers` **interpreted**, per-kind dispatch of `to_sympy` interpreted"),
    "C17": ("hazards", "fan-out twins, unordered fan-in keyed completely, randomness inventory, shared-object taint (through results holding circuit objects and local containers)"),
    "C18": ("budgets + option tables (partial: `evaluate_log_F_ext` only in its fixed-extension branch)", "progress-budget abstract interpretation; option tables by value sets"),
    "C19": ("partial: wiring", "option→parameter forwarding against argparse dests and API signatures, provenance of reported values, must-pass-through emission on the CFG, per-data-set independence, dispatch tables, `parse_circuits` interpreted"),
    "C20": ("traversal, naming and **totality of both diagram exporters up to a bound**", "**interpretation** of `to_circuitikz` and `to_drawing` on every topology (all shapes ≤ 4 nodes, parser-admissible shapes ≤ 7; 5/8 thorough); kind-domain dispatch; naming rules shared with C16"),
}


def status_table() -> str:
    known = json.loads((ROOT / "known_findings.json").read_text())["findings"]
    rows = ["| id | claimed as | decided by | rules / instances on the tree |", "|---|---|---|---|"]
    for pid in sorted(DECIDED):
        ev = json.loads((ROOT / "evidence" / f"{pid}.json").read_text())
        rules = ev["coverage"].get("rules", {})
        n_inst = sum(v.get("instances", 0) for v in rules.values())
        nk = sum(1 for k in known if k["property"] == pid and k.get("status") == "known")
        rows.append(f"| {pid} | {DECIDED[pid][0]} | {DECIDED[pid][1]} | {len(rules)} / {n_inst}" + (f" ({nk} known findings)" if nk else "") + " |")
    return "\n".join(rows)


def replace_between(text: str, begin: str, end: str, new: str) -> str:
    i, j = text.index(begin) + len(begin), text.index(end)
    return text[:i] + "\n" + new + "\n" + text[j:]


def main() -> int:
    s = DESIGN.read_text()
    s = replace_between(s, "<!-- STATUS_TABLE_BEGIN -->", "<!-- STATUS_TABLE_END -->", status_table())
    seed = subprocess.run([sys.executable, str(ROOT / "tools" / "seed_table.py")], capture_output=True, text=True, check=True).stdout.strip()
    s = replace_between(s, "<!-- SEED_TABLE_BEGIN -->", "<!-- SEED_TABLE_END -->", seed)
    n_seeds = len(list((ROOT / "seeded").iterdir()))
    n_benign = len(list((ROOT / "benign").iterdir()))
    sys.path.insert(0, str(ROOT))
    from sa.selftest.variants import VARIANTS  # noqa: E402
    own = sum(1 for d in (ROOT / "seeded").iterdir() if json.loads((d / "meta.json").read_text()).get("detection", {}).get("detected_by_own_property_check"))
    anyc = sum(1 for d in (ROOT / "seeded").iterdir() if json.loads((d / "meta.json").read_text()).get("detection", {}).get("detected"))
    s = re.sub(r"<!--N:selftest-->\d*", f"<!--N:selftest-->{len(VARIANTS)}", s)
    s = re.sub(r"<!--N:seeds-->\d*", f"<!--N:seeds-->{n_seeds}", s)
    s = re.sub(r"<!--N:benign-->\d*", f"<!--N:benign-->{n_benign}", s)
    s = re.sub(r"<!--N:seeds_own-->\d*", f"<!--N:seeds_own-->{own}", s)
    s = re.sub(r"<!--N:seeds_any-->\d*", f"<!--N:seeds_any-->{anyc}", s)
    DESIGN.write_text(s)
    print(f"DESIGN.md refreshed: {len(VARIANTS)} variants, {n_seeds} seeds ({own} own / {anyc} any), {n_benign} benign")
    return 0


if __name__ == "__main__":
    raise SystemExit(main())
