#!/usr/bin/env python3
"""Run the pinned baseline test command and compare with BASELINE.json's
stable_pass list.  Exit 0 iff every stable-pass test still passes.
Usage: python3 tools/baseline.py [repo_dir]"""
import json
import os
import subprocess
import sys
import tempfile
import xml.etree.ElementTree as ET

repo = sys.argv[1] if len(sys.argv) > 1 else "/repo"
base = json.load(open("/root/.vp/BASELINE.json"))
want = set(base["stable_pass"])
fd, junit = tempfile.mkstemp(suffix=".xml", prefix="pyimp-junit-")
os.close(fd)
env = dict(os.environ)
env.pop("PYIMPSPEC_VERIF", None)
cmd = ["/venv/bin/python", "-m", "pytest", "-ra", "-q", "-p", "no:cacheprovider", "--timeout=900",
       "--continue-on-collection-errors", f"--junitxml={junit}"]
p = subprocess.run(cmd, cwd=repo, env=env, stdout=subprocess.PIPE, stderr=subprocess.STDOUT, text=True)
passed = set()
try:
    for tc in ET.parse(junit).getroot().iter("testcase"):
        if not any(ch.tag in ("failure", "error", "skipped") for ch in tc):
            passed.add(f"{tc.get('classname')}::{tc.get('name')}")
finally:
    os.unlink(junit)
missing = sorted(want - passed)
print(f"baseline: {len(want & passed)}/{len(want)} stable-pass tests pass; {len(passed)} passed overall")
for m in missing[:40]:
    print("  NOT PASSING:", m)
if missing:
    print(p.stdout[-3000:])
sys.exit(1 if missing else 0)
